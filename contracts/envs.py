"""Contracts for gridworld.py, inner_env.py, outer_env.py (C01 C02 C03 C04 C12)."""
from pyvc_rt import *
from contracts.spec import *

GWM = 'gym_gridverse.envs.gridworld:'
IEM = 'gym_gridverse.envs.inner_env:'
OEM = 'gym_gridverse.outer_env:'
TWC = 'gym_gridverse.envs.transition_functions:transition_with_copy'
DBG = 'gym_gridverse.debugging:gv_debug'
MKRNG = 'gym_gridverse.rng:make_rng'

SPACE = ('object', {'contains': ('fn', 'bool')})
ASPACE = ('new', 'gym_gridverse.spaces:ActionSpace', [('list', 'Action', 3)])
GW0 = ('new', GWM + 'GridWorld', [SPACE, ASPACE, SPACE, ('fn', 'State'), ('fn', 'None'), ('fn', 'Observation'),
                                  ('fn', 'float'), ('fn', 'bool')])
GW = ('with', GW0, {'_rng': ('opt', 'Rng')})


def no_debug():
    """the debug flag was off at every query"""
    return all(not ghost_result(DBG, i) for i in range(ghost_calls(DBG)))


@contract(target=GWM + 'GridWorld.functional_step', args={'self': GW, 'state': 'State', 'action': 'Action'},
          stubs={TWC: 'State', DBG: 'bool'}, props=['C01', 'C02', 'C03', 'C12'])
def functional_step(self, state, action):
    s0 = old(state)
    legal = action in self.action_space.actions
    T = self._transition_function
    Rw = self._reward_function
    Tm = self._termination_function
    ensures('rejects-illegal-action-and-changes-nothing', lambda: implies(not legal, lambda: (
        raised(ValueError) and ghost_calls(TWC) == 0 and ghost_calls(Rw) == 0 and ghost_calls(Tm) == 0
        and ghost_calls(T) == 0 and same(state, s0))))
    ensures('only-debug-checks-raise', lambda: implies(legal and not returned(), lambda: raised(ValueError) and not no_debug()))
    ensures('total-without-debug', lambda: implies(legal and no_debug(), lambda: returned()))
    ensures('copy-then-transition', lambda: implies(returned(), lambda: (
        ghost_calls(TWC) == 1 and ghost_arg(TWC, 0, 0) is T and ghost_arg(TWC, 0, 1) is state
        and ghost_arg(TWC, 0, 2) is action and ghost_kwarg(TWC, 0, 'rng') is self._rng)))
    ensures('reward-and-termination-on-the-same-triple', lambda: implies(returned(), lambda: (
        ghost_calls(Rw) == 1 and ghost_calls(Tm) == 1
        and ghost_arg(Rw, 0, 0) is state and ghost_arg(Rw, 0, 1) is action and ghost_arg(Rw, 0, 2) is ghost_result(TWC, 0)
        and ghost_arg(Tm, 0, 0) is state and ghost_arg(Tm, 0, 1) is action and ghost_arg(Tm, 0, 2) is ghost_result(TWC, 0))))
    ensures('returns-exactly', lambda: implies(returned(), lambda: (
        result()[0] is ghost_result(TWC, 0) and result()[1] == ghost_result(Rw, 0)
        and result()[2] == ghost_result(Tm, 0))))
    ensures('input-state-unchanged', lambda: same(state, s0))


@contract(target=GWM + 'GridWorld.functional_reset', args={'self': GW}, stubs={DBG: 'bool'},
          props=['C01', 'C02', 'C13'])
def functional_reset(self):
    Rs = self._reset_function
    ensures('only-debug-checks-raise', lambda: implies(not returned(), lambda: raised(ValueError) and not no_debug()))
    ensures('total-without-debug', lambda: implies(no_debug(), lambda: returned()))
    ensures('threads-own-rng', lambda: ghost_calls(Rs) == 1 and ghost_kwarg(Rs, 0, 'rng') is self._rng)
    ensures('returns-exactly', lambda: implies(returned(), lambda: result() is ghost_result(Rs, 0)))


@contract(target=GWM + 'GridWorld.functional_observation', args={'self': GW, 'state': 'State'}, stubs={DBG: 'bool'},
          props=['C01', 'C02', 'C03'])
def functional_observation(self, state):
    s0 = old(state)
    Ob = self._observation_function
    ensures('only-debug-checks-raise', lambda: implies(not returned(), lambda: raised(ValueError) and not no_debug()))
    ensures('total-without-debug', lambda: implies(no_debug(), lambda: returned()))
    ensures('threads-own-rng', lambda: ghost_calls(Ob) == 1 and ghost_arg(Ob, 0, 0) is state
            and ghost_kwarg(Ob, 0, 'rng') is self._rng)
    ensures('returns-exactly', lambda: implies(returned(), lambda: result() is ghost_result(Ob, 0)))
    ensures('input-state-unchanged', lambda: same(state, s0))


@contract(target=GWM + 'GridWorld.set_seed', args={'self': GW, 'seed': 'int'}, stubs={MKRNG: 'Rng'}, props=['C02'])
def set_seed(self, seed):
    ensures('fresh-generator-from-seed', lambda: returned() and ghost_calls(MKRNG) == 1
            and ghost_arg(MKRNG, 0, 0) == seed and self._rng is ghost_result(MKRNG, 0))


# ------------------------------------------------------------------------- InnerEnv
FR = GWM + 'GridWorld.functional_reset'
FS = GWM + 'GridWorld.functional_step'
FO = GWM + 'GridWorld.functional_observation'
ENV = ('with', GW0, {'_state': ('opt', 'State'), '_observation': ('opt', 'Observation')})


@contract(target=IEM + 'InnerEnv.reset', args={'self': ENV}, stubs={FR: 'State', FO: 'Observation'}, props=['C04', 'C20'])
def env_reset(self):
    ensures('total', lambda: returned())
    ensures('state-from-functional-reset', lambda: ghost_calls(FR) == 1 and self._state is ghost_result(FR, 0))
    ensures('observation-invalidated', lambda: self._observation is None and ghost_calls(FO) == 0)


@contract(target=IEM + 'InnerEnv.step', args={'self': ENV, 'action': 'Action'},
          stubs={FS: ('tuple', ['State', 'float', 'bool']), FO: 'Observation'}, props=['C04', 'C20'])
def env_step(self, action):
    st0 = old(self._state)
    ob0 = old(self._observation)
    had = self._state is not None if False else None
    ensures('before-reset-raises-and-does-nothing', lambda: implies(st0 is None, lambda: (
        raised(RuntimeError) and ghost_calls(FS) == 0 and self._state is None and same(self._observation, ob0))))
    ensures('steps-current-state', lambda: implies(st0 is not None, lambda: (
        returned() and ghost_calls(FS) == 1 and same(ghost_arg(FS, 0, 1), st0) and ghost_arg(FS, 0, 2) is action)))
    ensures('state-replaced-observation-invalidated', lambda: implies(st0 is not None, lambda: (
        self._state is ghost_result(FS, 0)[0] and self._observation is None and ghost_calls(FO) == 0)))
    ensures('returns-reward-and-done', lambda: implies(st0 is not None, lambda: (
        result()[0] == ghost_result(FS, 0)[1] and result()[1] == ghost_result(FS, 0)[2])))


@contract(target=IEM + 'InnerEnv.state', args={'self': ENV}, stubs={FS: None, FR: None, FO: None}, props=['C04'])
def env_state(self):
    st0 = old(self._state)
    ensures('raises-before-reset', lambda: (st0 is None) == raised(RuntimeError) and (st0 is not None) == returned())
    ensures('returns-current-state', lambda: implies(returned(), lambda: result() is self._state))
    ensures('reads-only', lambda: ghost_calls(FS) == 0 and ghost_calls(FR) == 0 and ghost_calls(FO) == 0)


@contract(target=IEM + 'InnerEnv.observation', args={'self': ENV}, stubs={FO: 'Observation', FS: None, FR: None},
          props=['C04', 'C20'])
def env_observation(self):
    st0 = old(self._state)
    ob0 = old(self._observation)
    cached = self._observation is not None
    c0 = old(cached)
    ensures('memoised-read-consumes-nothing', lambda: implies(c0, lambda: (
        returned() and ghost_calls(FO) == 0 and same(result(), ob0) and result() is self._observation)))
    ensures('computed-once-from-current-state', lambda: implies(not c0 and st0 is not None, lambda: (
        returned() and ghost_calls(FO) == 1 and ghost_arg(FO, 0, 1) is self._state
        and result() is ghost_result(FO, 0) and self._observation is result())))
    ensures('raises-before-reset', lambda: implies(not c0 and st0 is None, lambda: raised(RuntimeError) and ghost_calls(FO) == 0))
    ensures('never-steps', lambda: ghost_calls(FS) == 0 and ghost_calls(FR) == 0)


# ------------------------------------------------------------------------- OuterEnv
REP = ('object', {'convert': ('fn', 'Token')})
OUT = ('new', OEM + 'OuterEnv', [ENV], {'state_representation': ('opt', REP), 'observation_representation': ('opt', REP)})
IRESET = IEM + 'InnerEnv.reset'
ISTEP = IEM + 'InnerEnv.step'


@contract(target=OEM + 'OuterEnv.reset', args={'self': OUT}, stubs={IRESET: None}, props=['C04', 'C20'])
def outer_reset(self):
    ensures('delegates', lambda: returned() and ghost_calls(IRESET) == 1 and ghost_arg(IRESET, 0, 0) is self.inner_env)


@contract(target=OEM + 'OuterEnv.step', args={'self': OUT, 'action': 'Action'},
          stubs={ISTEP: ('tuple', ['float', 'bool'])}, props=['C04', 'C20'])
def outer_step(self, action):
    ensures('delegates', lambda: returned() and ghost_calls(ISTEP) == 1 and ghost_arg(ISTEP, 0, 0) is self.inner_env
            and ghost_arg(ISTEP, 0, 1) is action and len(result()) == 2
            and result()[0] == ghost_result(ISTEP, 0)[0] and result()[1] == ghost_result(ISTEP, 0)[1])


@contract(target=OEM + 'OuterEnv.state', args={'self': OUT}, props=['C04', 'C20'])
def outer_state(self):
    rep = self.state_representation
    st0 = old(self.inner_env._state)
    ensures('needs-representation', lambda: implies(rep is None, lambda: raised(RuntimeError)))
    ensures('representation-of-inner-state', lambda: implies(rep is not None and st0 is not None, lambda: (
        returned() and ghost_calls(rep.convert) == 1 and ghost_arg(rep.convert, 0, 0) is self.inner_env._state
        and result() is ghost_result(rep.convert, 0))))
    ensures('raises-before-reset', lambda: implies(rep is not None and st0 is None, lambda: raised(RuntimeError)))


@contract(target=OEM + 'OuterEnv.observation', args={'self': OUT}, stubs={FO: 'Observation'}, props=['C04', 'C20'])
def outer_observation(self):
    rep = self.observation_representation
    st0 = old(self.inner_env._state)
    c0 = old(self.inner_env._observation is not None)
    ensures('needs-representation', lambda: implies(rep is None, lambda: raised(RuntimeError) and ghost_calls(FO) == 0))
    ensures('representation-of-inner-observation', lambda: implies(rep is not None and (c0 or st0 is not None), lambda: (
        returned() and ghost_calls(rep.convert) == 1 and ghost_arg(rep.convert, 0, 0) is self.inner_env._observation
        and result() is ghost_result(rep.convert, 0))))


# ------------------------------------------------------------------------- short histories
# The per-call contracts above range over every value of the fields the classes have today.  A memo kept in
# a field added later would start from its constructor value in those contracts, so what an earlier *read*
# may do to a later one is checked on short histories: read, operate, read again.
FSTEP = ('tuple', ['State', 'float', 'bool'])


def last_call(f):
    return ghost_calls(f) - 1


@lemma(args={'self': OUT, 'action': 'Action'}, stubs={FR: 'State', FS: FSTEP, FO: 'Observation'}, props=['C04', 'C20'])
def outer_reads_follow_a_reset(self, action):
    srep = self.state_representation
    orep = self.observation_representation
    if srep is not None and orep is not None:
        self.reset()
        self.state                       # earlier reads (may fill memos)
        self.observation
        self.reset()
        s = self.state
        o = self.observation
        check('state-read-converts-the-fresh-state', lambda: ghost_calls(FR) == 2
              and self.inner_env._state is ghost_result(FR, 1)
              and ghost_arg(srep.convert, last_call(srep.convert), 0) is ghost_result(FR, 1)
              and s is ghost_result(srep.convert, last_call(srep.convert)))
        check('observation-read-converts-the-observation-of-the-fresh-state', lambda: (
            ghost_arg(FO, last_call(FO), 1) is ghost_result(FR, 1)
            and ghost_arg(orep.convert, last_call(orep.convert), 0) is ghost_result(FO, last_call(FO))
            and o is ghost_result(orep.convert, last_call(orep.convert))))


@lemma(args={'self': OUT, 'action': 'Action'}, stubs={FR: 'State', FS: FSTEP, FO: 'Observation'}, props=['C04', 'C20'])
def outer_reads_follow_a_step(self, action):
    srep = self.state_representation
    orep = self.observation_representation
    if srep is not None and orep is not None:
        self.reset()
        self.state
        self.observation
        r = self.step(action)
        s = self.state
        o = self.observation
        check('step-returns-reward-and-done-of-the-functional-step', lambda: ghost_calls(FS) == 1
              and ghost_arg(FS, 0, 1) is ghost_result(FR, 0) and ghost_arg(FS, 0, 2) is action
              and r[0] == ghost_result(FS, 0)[1] and r[1] == ghost_result(FS, 0)[2])
        check('state-read-converts-the-next-state', lambda: (
            self.inner_env._state is ghost_result(FS, 0)[0]
            and ghost_arg(srep.convert, last_call(srep.convert), 0) is ghost_result(FS, 0)[0]
            and s is ghost_result(srep.convert, last_call(srep.convert))))
        check('observation-read-converts-the-observation-of-the-next-state', lambda: (
            ghost_arg(FO, last_call(FO), 1) is ghost_result(FS, 0)[0]
            and ghost_arg(orep.convert, last_call(orep.convert), 0) is ghost_result(FO, last_call(FO))
            and o is ghost_result(orep.convert, last_call(orep.convert))))


@lemma(args={'self': ENV, 'action': 'Action'}, stubs={FR: 'State', FS: FSTEP, FO: 'Observation'}, props=['C04', 'C20'])
def inner_reads_follow_reset_and_step(self, action):
    self.reset()
    self.state
    self.observation
    self.reset()
    check('state-after-reset', lambda: self.state is ghost_result(FR, 1))
    o1 = self.observation
    check('observation-after-reset', lambda: ghost_arg(FO, last_call(FO), 1) is ghost_result(FR, 1)
          and o1 is ghost_result(FO, last_call(FO)))
    self.step(action)
    check('state-after-step', lambda: self.state is ghost_result(FS, 0)[0])
    o2 = self.observation
    check('observation-after-step', lambda: ghost_arg(FO, last_call(FO), 1) is ghost_result(FS, 0)[0]
          and o2 is ghost_result(FO, last_call(FO)))
    o3 = self.observation
    check('repeated-read-consumes-nothing', lambda: o3 is o2 and ghost_calls(FO) == 3)
