"""Contracts for gridworld.py, inner_env.py, outer_env.py (C01 C02 C03 C04 C08-C12 C20).

Everything here is stated through the public interface: environments are built by their real constructors
from opaque components (stubs with a ghost call trace), driven by public calls, and what is checked is which
components were called, with what, in which order, and what came back.  No private attribute is named, so
renaming one, or keeping a memo in a new one, changes nothing here unless behaviour changes."""
from pyvc_rt import *
from contracts.spec import *

GWM = 'gym_gridverse.envs.gridworld:'
IEM = 'gym_gridverse.envs.inner_env:'
OEM = 'gym_gridverse.outer_env:'
DBG = 'gym_gridverse.debugging:gv_debug'
MKRNG = 'gym_gridverse.rng:make_rng'

SPACE = ('object', {'contains': ('fn', 'bool')})
ASPACE = ('new', 'gym_gridverse.spaces:ActionSpace', [('list', 'Action', 3)])
PARTS = {'sspace': SPACE, 'aspace': ASPACE, 'ospace': SPACE, 'Rs': ('fn', 'State'), 'T': ('fn', 'None'),
         'Ob': ('fn', 'Observation'), 'Rw': ('fn', 'float'), 'Tm': ('fn', 'bool')}
GW0 = ('new', GWM + 'GridWorld', [SPACE, ASPACE, SPACE, ('fn', 'State'), ('fn', 'None'), ('fn', 'Observation'),
                                  ('fn', 'float'), ('fn', 'bool')])


def build(sspace, aspace, ospace, Rs, T, Ob, Rw, Tm, seeded, seed):
    from gym_gridverse.envs.gridworld import GridWorld
    gw = GridWorld(sspace, aspace, ospace, Rs, T, Ob, Rw, Tm)
    if seeded:
        gw.set_seed(seed)
    return gw


def no_debug():
    """the debug flag was off at every query"""
    return all(not ghost_result(DBG, i) for i in range(ghost_calls(DBG)))


def seeded_generator(seeded, seed):
    """the generator the environment must hand to its components: the one made from the seed, or none"""
    return ghost_result(MKRNG, 0) if (seeded and ghost_calls(MKRNG) > 0) else None


@lemma(args=dict(PARTS, state='State', action='Action', seeded='bool', seed='int'), stubs={DBG: 'bool', MKRNG: 'Rng'},
       props=['C01', 'C02', 'C03', 'C08', 'C09', 'C10', 'C11', 'C12'])
def gridworld_functional_step(sspace, aspace, ospace, Rs, T, Ob, Rw, Tm, state, action, seeded, seed):
    from gym_gridverse.utils.fast_copy import fast_copy
    gw = build(sspace, aspace, ospace, Rs, T, Ob, Rw, Tm, seeded, seed)
    rng = seeded_generator(seeded, seed)
    s0 = fast_copy(state)
    legal = action in aspace.actions
    rejected = False
    out = None
    try:
        out = gw.functional_step(state, action)
    except ValueError:
        rejected = True
    check('seed-reaches-the-generator-factory', lambda: implies(seeded, lambda: ghost_calls(MKRNG) == 1
                                                              and ghost_arg(MKRNG, 0, 0) == seed))
    check('rejects-illegal-action-and-changes-nothing', lambda: implies(not legal, lambda: (
        rejected and ghost_calls(Rw) == 0 and ghost_calls(Tm) == 0 and ghost_calls(T) == 0 and same(state, s0))))
    check('only-debug-checks-raise', lambda: implies(legal and rejected, lambda: not no_debug()))
    check('total-without-debug', lambda: implies(legal and no_debug(), lambda: not rejected))
    check('transition-runs-once-on-a-copy-with-the-environment-generator', lambda: implies(not rejected, lambda: (
        ghost_calls(T) == 1 and ghost_arg(T, 0, 0) is not state and same(ghost_arg(T, 0, 0), s0)
        and ghost_arg(T, 0, 1) is action and ghost_kwarg(T, 0, 'rng') is rng)))
    check('reward-and-termination-on-the-same-triple', lambda: implies(not rejected, lambda: (
        ghost_calls(Rw) == 1 and ghost_calls(Tm) == 1
        and ghost_arg(Rw, 0, 0) is state and ghost_arg(Rw, 0, 1) is action and ghost_arg(Rw, 0, 2) is ghost_arg(T, 0, 0)
        and ghost_arg(Tm, 0, 0) is state and ghost_arg(Tm, 0, 1) is action and ghost_arg(Tm, 0, 2) is ghost_arg(T, 0, 0)
        and ghost_seq(T, 0) < ghost_seq(Rw, 0) and ghost_seq(T, 0) < ghost_seq(Tm, 0))))
    check('returns-exactly', lambda: implies(not rejected, lambda: (
        out[0] is ghost_arg(T, 0, 0) and out[1] == ghost_result(Rw, 0) and out[2] == ghost_result(Tm, 0))))
    check('next-state-shares-no-mutable-component', lambda: implies(not rejected, lambda: (
        out[0].grid is not state.grid and out[0].agent is not state.agent
        and out[0].agent.transform is not state.agent.transform and out[0].grid.objects is not state.grid.objects)))
    check('input-state-unchanged', lambda: same(state, s0))


@lemma(args=dict(PARTS, state='State', seeded='bool', seed='int'), stubs={DBG: 'bool', MKRNG: 'Rng'},
       props=['C01', 'C02', 'C03', 'C13'])
def gridworld_reset_and_observation(sspace, aspace, ospace, Rs, T, Ob, Rw, Tm, state, seeded, seed):
    from gym_gridverse.utils.fast_copy import fast_copy
    gw = build(sspace, aspace, ospace, Rs, T, Ob, Rw, Tm, seeded, seed)
    rng = seeded_generator(seeded, seed)
    s0 = fast_copy(state)
    r_rejected = False
    first = None
    try:
        first = gw.functional_reset()
    except ValueError:
        r_rejected = True
    n_dbg = ghost_calls(DBG)
    reset_without_debug = all(not ghost_result(DBG, i) for i in range(n_dbg))
    check('reset-only-debug-checks-raise', lambda: implies(r_rejected, lambda: not reset_without_debug))
    check('reset-total-without-debug', lambda: implies(reset_without_debug, lambda: not r_rejected))
    check('reset-threads-the-environment-generator', lambda: ghost_calls(Rs) == 1 and ghost_kwarg(Rs, 0, 'rng') is rng)
    check('reset-returns-exactly', lambda: implies(not r_rejected, lambda: first is ghost_result(Rs, 0)))
    o_rejected = False
    obs = None
    try:
        obs = gw.functional_observation(state)
    except ValueError:
        o_rejected = True
    obs_without_debug = all(not ghost_result(DBG, i) for i in range(n_dbg, ghost_calls(DBG)))
    check('observation-only-debug-checks-raise', lambda: implies(o_rejected, lambda: not obs_without_debug))
    check('observation-total-without-debug', lambda: implies(obs_without_debug, lambda: not o_rejected))
    check('observation-threads-the-environment-generator', lambda: ghost_calls(Ob) == 1 and ghost_arg(Ob, 0, 0) is state
          and ghost_kwarg(Ob, 0, 'rng') is rng)
    check('observation-returns-exactly', lambda: implies(not o_rejected, lambda: obs is ghost_result(Ob, 0)))
    check('observation-leaves-the-state-unchanged', lambda: same(state, s0))
    check('transition-reward-termination-not-called', lambda: ghost_calls(T) == 0 and ghost_calls(Rw) == 0 and ghost_calls(Tm) == 0)


# ------------------------------------------------------------------------- InnerEnv (stateful interface)
FR = GWM + 'GridWorld.functional_reset'
FS = GWM + 'GridWorld.functional_step'
FO = GWM + 'GridWorld.functional_observation'
FSTEP = ('tuple', ['State', 'float', 'bool'])
ENV = GW0


def raises_runtime_error(thunk):
    try:
        thunk()
    except RuntimeError:
        return True
    return False


def last_call(f):
    return ghost_calls(f) - 1


@lemma(args={'self': ENV, 'action': 'Action'}, stubs={FR: 'State', FS: FSTEP, FO: 'Observation'}, props=['C04', 'C20'])
def inner_before_the_first_reset(self, action):
    check('state-raises', lambda: raises_runtime_error(lambda: self.state))
    check('observation-raises', lambda: raises_runtime_error(lambda: self.observation))
    check('step-raises', lambda: raises_runtime_error(lambda: self.step(action)))
    check('nothing-was-computed', lambda: ghost_calls(FR) == 0 and ghost_calls(FS) == 0 and ghost_calls(FO) == 0)
    check('still-unusable-afterwards', lambda: raises_runtime_error(lambda: self.state))


@lemma(args={'self': ENV, 'action': 'Action'}, stubs={FR: 'State', FS: FSTEP, FO: 'Observation'}, props=['C04', 'C20'])
def inner_reset_then_step(self, action):
    self.reset()
    check('reset-state-from-functional-reset-no-observation-yet', lambda: ghost_calls(FR) == 1 and ghost_calls(FO) == 0
          and self.state is ghost_result(FR, 0) and ghost_calls(FS) == 0)
    r = self.step(action)
    check('steps-the-current-state-with-the-action', lambda: ghost_calls(FS) == 1
          and ghost_arg(FS, 0, 1) is ghost_result(FR, 0) and ghost_arg(FS, 0, 2) is action)
    check('returns-reward-and-done-of-the-functional-step', lambda: len(r) == 2 and r[0] == ghost_result(FS, 0)[1]
          and r[1] == ghost_result(FS, 0)[2])
    check('state-replaced-no-observation-computed', lambda: self.state is ghost_result(FS, 0)[0] and ghost_calls(FO) == 0
          and ghost_calls(FR) == 1)
    o = self.observation
    check('observation-of-the-new-state-computed-on-demand', lambda: ghost_calls(FO) == 1
          and ghost_arg(FO, 0, 1) is ghost_result(FS, 0)[0] and o is ghost_result(FO, 0))
    check('reads-never-step-or-reset', lambda: ghost_calls(FS) == 1 and ghost_calls(FR) == 1)
    r2 = self.step(action)
    check('a-later-step-reports-its-own-reward-and-done-flag', lambda: ghost_calls(FS) == 2
          and ghost_arg(FS, 1, 1) is ghost_result(FS, 0)[0] and len(r2) == 2
          and r2[0] == ghost_result(FS, 1)[1] and r2[1] == ghost_result(FS, 1)[2])


@lemma(args={'self': ENV, 'action': 'Action'}, stubs={FR: 'State', FO: 'Observation', DBG: 'bool'}, props=['C04', 'C01', 'C20'])
def inner_rejected_step_changes_nothing(self, action):
    """a step that raises (here: the real functional_step rejecting an action outside the action space) leaves the
    environment as it was: same state, same memoised observation, nothing recomputed"""
    self.reset()
    s1 = self.state
    o1 = self.observation
    n_fo = ghost_calls(FO)
    rejected = False
    try:
        self.step(action)
    except ValueError:
        rejected = True
    if rejected:
        check('state-kept', lambda: self.state is s1)
        o2 = self.observation
        check('memoised-observation-kept-nothing-recomputed', lambda: o2 is o1 and ghost_calls(FO) == n_fo)


@lemma(args=dict(PARTS, seed='int', seed2='int'), stubs={DBG: 'bool', MKRNG: 'Rng'}, props=['C02'])
def gridworld_reseeding(sspace, aspace, ospace, Rs, T, Ob, Rw, Tm, seed, seed2):
    """seeding again gives the environment a new generator made from the new seed, as a fresh environment would get"""
    gw = build(sspace, aspace, ospace, Rs, T, Ob, Rw, Tm, True, seed)
    try:
        gw.functional_reset()
    except ValueError:
        pass
    gw.set_seed(seed2)
    try:
        gw.functional_reset()
    except ValueError:
        pass
    check('each-seeding-makes-a-generator-from-its-seed', lambda: ghost_calls(MKRNG) == 2
          and ghost_arg(MKRNG, 0, 0) == seed and ghost_arg(MKRNG, 1, 0) == seed2)
    check('components-get-the-generator-of-the-latest-seeding', lambda: ghost_calls(Rs) == 2
          and ghost_kwarg(Rs, 0, 'rng') is ghost_result(MKRNG, 0)
          and same_generator(ghost_kwarg(Rs, 1, 'rng'), ghost_result(MKRNG, 1)))


def same_generator(g, fresh):
    """the generator made from the new seed, or (natively) a generator brought into exactly its state"""
    return g is fresh or g.bit_generator.state == fresh.bit_generator.state


@lemma(args={'self': ENV, 'action': 'Action'}, stubs={FR: 'State', FS: FSTEP, FO: 'Observation'}, props=['C04', 'C20'])
def inner_reads_follow_reset_and_step(self, action):
    self.reset()
    self.state
    self.observation
    self.reset()
    check('state-after-reset', lambda: self.state is ghost_result(FR, 1))
    o1 = self.observation
    check('observation-after-reset', lambda: ghost_arg(FO, last_call(FO), 1) is ghost_result(FR, 1)
          and o1 is ghost_result(FO, last_call(FO)))
    self.step(action)
    check('state-after-step', lambda: self.state is ghost_result(FS, 0)[0])
    o2 = self.observation
    check('observation-after-step', lambda: ghost_arg(FO, last_call(FO), 1) is ghost_result(FS, 0)[0]
          and o2 is ghost_result(FO, last_call(FO)))
    o3 = self.observation
    check('repeated-read-consumes-nothing', lambda: o3 is o2 and ghost_calls(FO) == 3)


# ------------------------------------------------------------------------- OuterEnv
REP = ('object', {'convert': ('fn', 'Token')})
OUT = ('new', OEM + 'OuterEnv', [ENV], {'state_representation': ('opt', REP), 'observation_representation': ('opt', REP)})
IRESET = IEM + 'InnerEnv.reset'
ISTEP = IEM + 'InnerEnv.step'


@contract(target=OEM + 'OuterEnv.reset', args={'self': OUT}, stubs={IRESET: None}, props=['C04', 'C20'])
def outer_reset(self):
    ensures('delegates', lambda: returned() and ghost_calls(IRESET) == 1 and ghost_arg(IRESET, 0, 0) is self.inner_env)


@contract(target=OEM + 'OuterEnv.step', args={'self': OUT, 'action': 'Action'},
          stubs={ISTEP: ('tuple', ['float', 'bool'])}, props=['C04', 'C20'])
def outer_step(self, action):
    ensures('delegates', lambda: returned() and ghost_calls(ISTEP) == 1 and ghost_arg(ISTEP, 0, 0) is self.inner_env
            and ghost_arg(ISTEP, 0, 1) is action and len(result()) == 2
            and result()[0] == ghost_result(ISTEP, 0)[0] and result()[1] == ghost_result(ISTEP, 0)[1])


@lemma(args={'self': OUT}, stubs={FR: 'State', FS: FSTEP, FO: 'Observation'}, props=['C04', 'C20'])
def outer_reads_need_a_representation_and_a_reset(self):
    srep = self.state_representation
    orep = self.observation_representation
    check('state-before-reset-raises', lambda: raises_runtime_error(lambda: self.state))
    check('observation-before-reset-raises', lambda: raises_runtime_error(lambda: self.observation))
    check('nothing-converted', lambda: (srep is None or ghost_calls(srep.convert) == 0)
          and (orep is None or ghost_calls(orep.convert) == 0))
    self.reset()
    check('state-without-representation-raises', lambda: implies(srep is None, lambda: raises_runtime_error(lambda: self.state)))
    check('observation-without-representation-raises', lambda: implies(
        orep is None, lambda: raises_runtime_error(lambda: self.observation) and ghost_calls(FO) == 0))


# ------------------------------------------------------------------------- short histories
# The per-call contracts above range over every value of the fields the classes have today.  A memo kept in
# a field added later would start from its constructor value in those contracts, so what an earlier *read*
# may do to a later one is checked on short histories: read, operate, read again.
@lemma(args={'self': OUT, 'action': 'Action'}, stubs={FR: 'State', FS: FSTEP, FO: 'Observation'}, props=['C04', 'C20'])
def outer_reads_follow_a_reset(self, action):
    srep = self.state_representation
    orep = self.observation_representation
    if srep is not None and orep is not None:
        self.reset()
        self.state                       # earlier reads (may fill memos)
        self.observation
        self.reset()
        s = self.state
        o = self.observation
        check('state-read-converts-the-fresh-state', lambda: ghost_calls(FR) == 2
              and self.inner_env.state is ghost_result(FR, 1)
              and ghost_arg(srep.convert, last_call(srep.convert), 0) is ghost_result(FR, 1)
              and s is ghost_result(srep.convert, last_call(srep.convert)))
        check('observation-read-converts-the-observation-of-the-fresh-state', lambda: (
            ghost_arg(FO, last_call(FO), 1) is ghost_result(FR, 1)
            and ghost_arg(orep.convert, last_call(orep.convert), 0) is ghost_result(FO, last_call(FO))
            and o is ghost_result(orep.convert, last_call(orep.convert))))


@lemma(args={'self': OUT, 'action': 'Action'}, stubs={FR: 'State', FS: FSTEP, FO: 'Observation'}, props=['C04', 'C20'])
def outer_reads_follow_a_step(self, action):
    srep = self.state_representation
    orep = self.observation_representation
    if srep is not None and orep is not None:
        self.reset()
        self.state
        self.observation
        r = self.step(action)
        s = self.state
        o = self.observation
        check('step-returns-reward-and-done-of-the-functional-step', lambda: ghost_calls(FS) == 1
              and ghost_arg(FS, 0, 1) is ghost_result(FR, 0) and ghost_arg(FS, 0, 2) is action
              and r[0] == ghost_result(FS, 0)[1] and r[1] == ghost_result(FS, 0)[2])
        check('state-read-converts-the-next-state', lambda: (
            self.inner_env.state is ghost_result(FS, 0)[0]
            and ghost_arg(srep.convert, last_call(srep.convert), 0) is ghost_result(FS, 0)[0]
            and s is ghost_result(srep.convert, last_call(srep.convert))))
        check('observation-read-converts-the-observation-of-the-next-state', lambda: (
            ghost_arg(FO, last_call(FO), 1) is ghost_result(FS, 0)[0]
            and ghost_arg(orep.convert, last_call(orep.convert), 0) is ghost_result(FO, last_call(FO))
            and o is ghost_result(orep.convert, last_call(orep.convert))))
        n_fo = ghost_calls(FO)
        self.observation
        check('a-repeated-read-converts-the-same-inner-observation-and-computes-nothing', lambda: ghost_calls(FO) == n_fo
              and ghost_arg(orep.convert, last_call(orep.convert), 0) is ghost_result(FO, last_call(FO)))


