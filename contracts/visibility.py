"""Contracts for gym_gridverse/envs/visibility_functions.py (C02 C03 C05 C06 C07)."""
from pyvc_rt import *
from contracts.spec import *
from gym_gridverse.geometry import Position

VF = 'gym_gridverse.envs.visibility_functions:'
RAYS = 'gym_gridverse.utils.raytracing:compute_rays_fancy'
RAYS1 = 'gym_gridverse.utils.raytracing:compute_rays'      # the 1-degree fan: not used by the visibility functions
GPR = {'grid': 'Grid', 'position': 'Position', 'rng': 'Rng'}


def protocol(grid, position, rng, g0):
    """what from_visibility relies on for every visibility function"""
    ensures('mask-has-the-grid-shape', lambda: implies(returned(), lambda: result().shape == (grid.shape.height, grid.shape.width)))
    ensures('grid-untouched', lambda: same(grid, g0))


@contract(target=VF + 'fully_transparent', args=GPR, kwonly=['rng'], props=['C02', 'C03', 'C05', 'C06', 'C07'])
def v_fully_transparent(grid, position, rng):
    g0 = old(grid)
    ensures('total', lambda: returned())
    ensures('everything-visible', lambda: forall_cells(grid, lambda c: result()[c.y, c.x]))
    protocol(grid, position, rng, g0)
    ensures('deterministic-no-draw', lambda: draws(rng) == 0)


# ---------------------------------------------------------------------- partially_occluded
def linked(visibility, grid, c):
    """c touches (edge or corner, from below or from the side) a visible cell that does not block vision"""
    def ok(d):
        return in_grid(grid, d) and visibility[d.y, d.x] and not grid[d].blocks_vision
    return (ok(Position(c.y + 1, c.x)) or ok(Position(c.y, c.x - 1)) or ok(Position(c.y, c.x + 1))
            or ok(Position(c.y + 1, c.x - 1)) or ok(Position(c.y + 1, c.x + 1)))


@contract(target=VF + '_partially_occluded_make_visible',
          args={'visibility': 'BoolArr', 'grid': 'Grid', 'position': 'Position', 'next_positions': 'NextPosFn'},
          modular=True, modifies=['visibility'], props=['C03', 'C06'])
def make_visible(visibility, grid, position, next_positions):
    requires(visibility.shape == (grid.shape.height, grid.shape.width))
    v0 = old(visibility)
    g0 = old(grid)
    ensures('total', lambda: returned())
    ensures('shape-kept', lambda: visibility.shape == v0.shape)
    ensures('marks-only-grow', lambda: forall_cells(grid, lambda c: implies(v0[c.y, c.x], visibility[c.y, c.x])))
    ensures('marks-own-cell', lambda: implies(in_grid(grid, position), lambda: visibility[position.y, position.x]))
    # flood fill expands only from cells that do not block vision; every newly marked cell is the
    # start cell or hangs on a marked transparent cell
    ensures('new-marks-are-linked', lambda: forall_cells(grid, lambda c: implies(
        visibility[c.y, c.x] and not v0[c.y, c.x], lambda: c == position or linked(visibility, grid, c))))
    # non-interference: the content of a cell is inspected only after the cell has been marked visible
    ensures('reads-only-marked-cells', lambda: reads_all(grid, lambda p: visibility[p.y, p.x]))
    ensures('grid-untouched', lambda: same(grid, g0))


@contract(target=VF + 'partially_occluded', args=GPR, kwonly=['rng'], props=['C02', 'C03', 'C05', 'C06', 'C07'])
def v_partially_occluded(grid, position, rng):
    from gym_gridverse.envs.visibility_functions import (_partially_occluded_next_positions_front_left as nl,
                                                         _partially_occluded_next_positions_front_right as nr)
    g0 = old(grid)
    supported = position.y == grid.shape.height - 1
    ensures('only-the-bottom-row-anchor-is-implemented', lambda: returned() == supported
            and implies(not returned(), lambda: raised(NotImplementedError)))
    protocol(grid, position, rng, g0)
    ensures('own-cell-visible', lambda: implies(returned() and in_grid(grid, position), lambda: result()[position.y, position.x]))
    ensures('visible-cells-are-linked-to-the-agent', lambda: implies(returned(), lambda: forall_cells(grid, lambda c: implies(
        result()[c.y, c.x], lambda: c == position or linked(result(), grid, c)))))
    ensures('reads-only-visible-cells', lambda: implies(returned(), lambda: reads_all(grid, lambda p: result()[p.y, p.x])))
    ensures('deterministic-no-draw', lambda: draws(rng) == 0)


# ---------------------------------------------------------------------- raytracing
def rays_in_grid(rays, grid, position):
    """contract of compute_rays_fancy assumed here (checked, bounded, under C19): rays stay inside the area"""
    return forall_int(0, len(rays), lambda r: forall_int(0, len(rays[r]), lambda i: in_grid(grid, rays[r][i])))


def counts_ok(grid, counts_num, counts_den):
    return (counts_num.shape == (grid.shape.height, grid.shape.width) and counts_den.shape == counts_num.shape
            and forall_cells(grid, lambda c: 0 <= counts_num[c.y, c.x] and counts_num[c.y, c.x] <= counts_den[c.y, c.x]))


def rt_outer(k, n, item, pre, grid, counts_num, counts_den):
    return counts_ok(grid, counts_num, counts_den)


def rt_inner(k, n, item, pre, grid, counts_num, counts_den):
    return counts_ok(grid, counts_num, counts_den) and forall_cells(grid, lambda c: (
        pre.counts_num[c.y, c.x] <= counts_num[c.y, c.x] and pre.counts_den[c.y, c.x] <= counts_den[c.y, c.x]))


def rt_reads_lit(grid, counts_num):
    """a cell's content is inspected only while the ray still carries light, i.e. after the cell
    has been counted as lit (so it ends up visible: counts never decrease)"""
    return reads_all(grid, lambda p: counts_num[p.y, p.x] >= 1)


for fn_name in ('raytracing', 'stochastic_raytracing'):
    loop_invariant(target=VF + fn_name, loop=0, kind='indexed', modifies=['counts_num', 'counts_den'], iter='rays')(rt_outer)
    loop_invariant(target=VF + fn_name, loop=1, kind='indexed', modifies=['counts_num', 'counts_den'], iter='ray',
                   step={'reads-only-lit-cells': rt_reads_lit})(rt_inner)


@contract(target=VF + 'raytracing', args=GPR, kwonly=['rng'],
          stubs={RAYS: ('native-real', 'Rays'), RAYS1: ('native-real', 'Rays')},
          props=['C02', 'C03', 'C05', 'C06', 'C07'])
def v_raytracing(grid, position, rng):
    requires(in_grid(grid, position))   # documented: the origin must lie inside the area
    stub_assume(RAYS, lambda rays, p, area: rays_in_grid(rays, grid, position))
    g0 = old(grid)
    ensures('total', lambda: returned())
    # both ray-traced views use the same fan of rays (the corner-aimed one) from the agent's cell
    ensures('rays-requested-for-this-view', lambda: not symbolic() or (
        ghost_calls(RAYS) == 1 and ghost_calls(RAYS1) == 0 and ghost_arg(RAYS, 0, 0) == position))
    protocol(grid, position, rng, g0)
    ensures_locals('visible-iff-reached-by-a-lit-ray', lambda counts_num: forall_cells(
        grid, lambda c: result()[c.y, c.x] == (counts_num[c.y, c.x] >= 1)))
    ensures('deterministic-no-draw', lambda: draws(rng) == 0)


@contract(target=VF + 'stochastic_raytracing', args=GPR, kwonly=['rng'],
          stubs={RAYS: ('native-real', 'Rays'), RAYS1: ('native-real', 'Rays')},
          props=['C02', 'C03', 'C05', 'C06'])
def v_stochastic_raytracing(grid, position, rng):
    from gym_gridverse.envs.visibility_functions import raytracing
    requires(in_grid(grid, position))
    stub_assume(RAYS, lambda rays, p, area: rays_in_grid(rays, grid, position))
    g0 = old(grid)
    ensures('total', lambda: returned())
    protocol(grid, position, rng, g0)
    # for every outcome of the generator:
    ensures_locals('never-shows-a-cell-no-lit-ray-reaches', lambda counts_num: forall_cells(
        grid, lambda c: implies(counts_num[c.y, c.x] == 0, lambda: not result()[c.y, c.x])),
        native=lambda: forall_cells(grid, lambda c: implies(result()[c.y, c.x], lambda: raytracing(g0, position)[c.y, c.x])))
    ensures_locals('always-shows-cells-every-ray-reaches-lit', lambda counts_num, counts_den: forall_cells(
        grid, lambda c: implies(counts_den[c.y, c.x] > 0 and counts_num[c.y, c.x] == counts_den[c.y, c.x],
                                lambda: result()[c.y, c.x])))
    ensures('same-rays-as-the-deterministic-view', lambda: not symbolic() or (
        ghost_calls(RAYS) == 1 and ghost_calls(RAYS1) == 0 and ghost_arg(RAYS, 0, 0) == position))
    ensures('draws-only-from-the-passed-generator', lambda: draws(rng) == 1)
