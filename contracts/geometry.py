"""Contracts and lemmas for gym_gridverse/geometry.py and envs/utils.py (C18, C08)."""
from pyvc_rt import *
from contracts.spec import *
from gym_gridverse.geometry import Area, Orientation, Position, Transform, get_manhattan_boundary
from gym_gridverse.envs.utils import get_next_position

G = 'gym_gridverse.geometry:'


@contract(target=G + 'Orientation.__mul__', args={'self': 'Orientation', 'other': 'Orientation'}, props=['C18', 'C08', 'C07'])
def orientation_mul_orientation(self, other):
    ensures('total', lambda: returned())
    ensures('is-turn', lambda: result() is turn(self, other))


@contract(target=G + 'Orientation.__mul__', args={'self': 'Orientation', 'other': 'Position'}, props=['C18', 'C05', 'C07'])
def orientation_mul_position(self, other):
    ensures('total', lambda: returned())
    ensures('is-rot', lambda: result() == rot(self, other))


@contract(target=G + 'Orientation.__mul__', args={'self': 'Orientation', 'other': 'Area'}, props=['C18', 'C05', 'C07'])
def orientation_mul_area(self, other):
    ensures('total', lambda: returned())
    # the image area is the bounding box of the rotated corners ...
    c1 = rot(self, Position(other.ymin, other.xmin))
    c2 = rot(self, Position(other.ymax, other.xmax))
    ensures('corners', lambda: result().ymin == min(c1.y, c2.y) and result().ymax == max(c1.y, c2.y)
            and result().xmin == min(c1.x, c2.x) and result().xmax == max(c1.x, c2.x))


@contract(target=G + 'Orientation.__neg__', args={'self': 'Orientation'}, props=['C18'])
def orientation_neg(self):
    ensures('total', lambda: returned())
    ensures('is-inverse', lambda: result() is inv(self))


@contract(target=G + 'Position.__add__', args={'self': 'Position', 'other': 'Position'}, props=['C18', 'C08'])
def position_add(self, other):
    ensures('total', lambda: returned())
    ensures('sum', lambda: result().y == self.y + other.y and result().x == self.x + other.x)


@contract(target=G + 'Position.__add__', args={'self': 'Position', 'other': 'Area'}, props=['C18', 'C05'])
def position_add_area(self, other):
    ensures('total', lambda: returned())
    ensures('translate', lambda: result().ymin == self.y + other.ymin and result().ymax == self.y + other.ymax
            and result().xmin == self.x + other.xmin and result().xmax == self.x + other.xmax)


@contract(target=G + 'Position.__sub__', args={'self': 'Position', 'other': 'Position'}, props=['C18'])
def position_sub(self, other):
    ensures('total', lambda: returned())
    ensures('diff', lambda: result().y == self.y - other.y and result().x == self.x - other.x)


@contract(target=G + 'Position.__neg__', args={'self': 'Position'}, props=['C18'])
def position_neg(self):
    ensures('total', lambda: returned())
    ensures('neg', lambda: result().y == -self.y and result().x == -self.x)


@contract(target=G + 'Position.from_orientation', args={'orientation': 'Orientation'}, props=['C18', 'C08'])
def position_from_orientation(orientation):
    ensures('total', lambda: returned())
    ensures('unit', lambda: result() == unit(orientation))
    ensures('unit-is-rotated-forward', lambda: result() == rot(orientation, Position(-1, 0)))


@contract(target=G + 'Position.manhattan_distance', args={'p': 'Position', 'q': 'Position'}, props=['C18', 'C12'])
def position_manhattan(p, q):
    ensures('total', lambda: returned())
    ensures('l1', lambda: result() == manhattan(p, q))


@contract(target=G + 'Area.contains', args={'self': 'Area', 'position': 'Position'}, props=['C18', 'C01'])
def area_contains(self, position):
    ensures('total', lambda: returned())
    ensures('iff', lambda: result() == area_has(self, position))


@contract(target=G + 'Transform.__mul__', args={'self': 'Transform', 'other': 'Position'}, props=['C18', 'C05'])
def transform_mul_position(self, other):
    ensures('total', lambda: returned())
    ensures('rigid', lambda: result() == padd(self.position, rot(self.orientation, other)))


@contract(target=G + 'Transform.__mul__', args={'self': 'Transform', 'other': 'Transform'}, props=['C18'])
def transform_mul_transform(self, other):
    ensures('total', lambda: returned())
    ensures('semidirect', lambda: result().position == padd(self.position, rot(self.orientation, other.position))
            and result().orientation is turn(self.orientation, other.orientation))


@contract(target=G + 'Transform.__mul__', args={'self': 'Transform', 'other': 'Orientation'}, props=['C18'])
def transform_mul_orientation(self, other):
    ensures('total', lambda: returned())
    ensures('turn', lambda: result() is turn(self.orientation, other))


@contract(target=G + 'Transform.__mul__', args={'self': 'Transform', 'other': 'Area'}, props=['C18', 'C05', 'C07'])
def transform_mul_area(self, other):
    ensures('total', lambda: returned())
    c1 = padd(self.position, rot(self.orientation, Position(other.ymin, other.xmin)))
    c2 = padd(self.position, rot(self.orientation, Position(other.ymax, other.xmax)))
    ensures('corners', lambda: result().ymin == min(c1.y, c2.y) and result().ymax == max(c1.y, c2.y)
            and result().xmin == min(c1.x, c2.x) and result().xmax == max(c1.x, c2.x))


@contract(target=G + 'Transform.__neg__', args={'self': 'Transform'}, props=['C18'])
def transform_neg(self):
    ensures('total', lambda: returned())
    ensures('inverse', lambda: result().orientation is inv(self.orientation)
            and result().position == rot(inv(self.orientation), Position(-self.position.y, -self.position.x)))


@contract(target=G + 'get_manhattan_boundary', args={'position': 'Position', 'distance': ('const', 1)}, props=['C18', 'C11'])
def manhattan_boundary_1(position, distance):
    ensures('total', lambda: returned())
    ensures('four-neighbours', lambda: len(result()) == 4
            and result()[0] == padd(position, unit(F)) and result()[1] == padd(position, unit(R))
            and result()[2] == padd(position, unit(B)) and result()[3] == padd(position, unit(L)))


@contract(target='gym_gridverse.envs.utils:get_next_position',
          args={'position': 'Position', 'orientation': 'Orientation', 'action': 'Action'}, props=['C18', 'C08', 'C12'])
def next_position(position, orientation, action):
    ensures('total', lambda: returned())
    ensures('spec', lambda: result() == move_target(position, orientation, action))
    ensures('pose-algebra', lambda: implies(is_move(action),
            lambda: result() == Transform(position, orientation) * unit(rel(action))))


# --------------------------------------------------------------------------- lemmas
# (over the real operators; every quantifier is over unbounded integers)

@lemma(args={'a': 'Orientation', 'b': 'Orientation', 'c': 'Orientation'}, props=['C18'])
def orientation_group(a, b, c):
    check('assoc', lambda: (a * b) * c is a * (b * c))
    check('identity', lambda: F * a is a and a * F is a)
    check('inverse', lambda: a * -a is F and -a * a is F)
    check('cyclic', lambda: R * R is B and R * R * R is L and R * R * R * R is F)
    check('generated', lambda: a is F or a is R or a is R * R or a is R * R * R)
    check('commutative', lambda: a * b is b * a)


@lemma(args={'a': 'Orientation', 'b': 'Orientation', 'p': 'Position', 'q': 'Position'}, props=['C18'])
def orientation_action(a, b, p, q):
    check('additive', lambda: a * (p + q) == a * p + a * q)
    check('negation', lambda: a * -p == -(a * p))
    check('isometry', lambda: Position.manhattan_distance(a * p, a * q) == Position.manhattan_distance(p, q))
    check('identity', lambda: F * p == p)
    check('compose', lambda: a * (b * p) == (a * b) * p)
    check('faithful', lambda: implies(a * Position(-1, 0) == b * Position(-1, 0), a is b))


@lemma(args={'s': 'Transform', 't': 'Transform', 'u': 'Transform', 'p': 'Position', 'o': 'Orientation'}, props=['C18'])
def transform_monoid(s, t, u, p, o):
    e = Transform(Position(0, 0), F)
    check('assoc', lambda: (s * t) * u == s * (t * u))
    check('identity', lambda: e * t == t and t * e == t and e * p == p)
    check('inverse', lambda: t * -t == e and -t * t == e)
    check('action', lambda: (s * t) * p == s * (t * p))
    check('action-orientation', lambda: (s * t) * o is s * (t * o))
    check('inverse-undoes', lambda: -t * (t * p) == p)


@lemma(args={'t': 'Transform', 'a': 'Area', 'p': 'Position'}, props=['C18', 'C05', 'C07'])
def area_image(t, a, p):
    check('no-raise-and-members', lambda: (t * a).contains(t * p) == a.contains(p))
    check('inverse-members', lambda: a.contains(-t * p) == (t * a).contains(p))
    check('size', lambda: ((t * a).height == a.height and (t * a).width == a.width)
          if (t.orientation is F or t.orientation is B)
          else ((t * a).height == a.width and (t * a).width == a.height))


@lemma(args={'p': 'Position', 'o': 'Orientation', 'a': 'Action'}, props=['C18', 'C08'])
def next_position_lemmas(p, o, a):
    check('one-step', lambda: implies(is_move(a), Position.manhattan_distance(get_next_position(p, o, a), p) == 1))
    check('stay', lambda: implies(not is_move(a), get_next_position(p, o, a) == p))
    check('forward-is-front', lambda: get_next_position(p, o, Action.MOVE_FORWARD) == Transform(p, o) * Position.from_orientation(F))


# ------------------------------------------------------------------------- Area.positions
def area_border(a, p):
    return area_has(a, p) and (p.y == a.ys[0] or p.y == a.ys[1] or p.x == a.xs[0] or p.x == a.xs[1])


@contract(target=G + 'Area.positions', args={'self': 'Area', 'selection': ('const', 'all'), 'p': 'Position'}, ghost=['p'],
          props=['C18', 'C13'])
def area_positions_all(self, selection, p):
    ensures('total', lambda: returned())
    ensures('exactly-the-cells-of-the-area', lambda: (p in list(result())) == area_has(self, p))


@contract(target=G + 'Area.positions', args={'self': 'Area', 'selection': ('const', 'border'), 'p': 'Position'}, ghost=['p'],
          props=['C18', 'C13'])
def area_positions_border(self, selection, p):
    ensures('total', lambda: returned())
    ensures('exactly-the-border-cells', lambda: (p in list(result())) == area_border(self, p))


@contract(target=G + 'Area.positions', args={'self': 'Area', 'selection': ('const', 'inside'), 'p': 'Position'}, ghost=['p'],
          props=['C18', 'C13'])
def area_positions_inside(self, selection, p):
    ensures('total', lambda: returned())
    ensures('exactly-the-interior-cells', lambda: (p in list(result())) == (area_has(self, p) and not area_border(self, p)))


@contract(target=G + 'Area.positions', args={'self': 'Area', 'selection': ('oneof', ['all', 'border', 'inside', 'interior', ''])}, props=['C18'])
def area_positions_rejects_other_selections(self, selection):
    ensures('valueerror-for-unknown-selection', lambda: implies(
        selection != 'all' and selection != 'border' and selection != 'inside', lambda: raised(ValueError)))


@lemma(args={'a': 'Area', 'k': 'int'}, props=['C18', 'C05'])
def area_accessors(a, k):
    check('bounds', lambda: a.ymin == a.ys[0] and a.ymax == a.ys[1] and a.xmin == a.xs[0] and a.xmax == a.xs[1])
    check('extent', lambda: a.height == a.ys[1] - a.ys[0] + 1 and a.width == a.xs[1] - a.xs[0] + 1
          and a.height >= 1 and a.width >= 1)
    check('coordinate-ranges', lambda: (k in a.y_coordinates()) == (a.ys[0] <= k and k <= a.ys[1])
          and (k in a.x_coordinates()) == (a.xs[0] <= k and k <= a.xs[1]))


@contract(target=G + 'Area', args={'ys': ('tuple', ['int', 'int']), 'xs': ('tuple', ['int', 'int'])}, props=['C18'])
def area_constructor(ys, xs):
    ensures('ordered-bounds-or-valueerror', lambda: returned() == (ys[0] <= ys[1] and xs[0] <= xs[1])
            and implies(not returned(), lambda: raised(ValueError)))
    ensures('keeps-the-bounds', lambda: implies(returned(), lambda: result().ys[0] == ys[0] and result().ys[1] == ys[1]
                                                and result().xs[0] == xs[0] and result().xs[1] == xs[1]))


@contract(target=G + 'distance_function_factory', args={'name': ('oneof', ['manhattan', 'euclidean', 'chebyshev', ''])}, props=['C18', 'C12'])
def distance_function_factory(name):
    ensures('known-names-or-valueerror', lambda: returned() == (name == 'manhattan' or name == 'euclidean')
            and implies(not returned(), lambda: raised(ValueError)))
    ensures('manhattan-is-l1', lambda: implies(name == 'manhattan', lambda: result() is Position.manhattan_distance))
    ensures('euclidean', lambda: implies(name == 'euclidean', lambda: result() is Position.euclidean_distance))


@contract(target=G + 'Position.euclidean_distance', args={'p': 'Position', 'q': 'Position'}, props=['C18', 'C12'])
def position_euclidean(p, q):
    ensures('total', lambda: returned())
    d2 = (p.y - q.y) * (p.y - q.y) + (p.x - q.x) * (p.x - q.x)
    # floats natively (T7): the square is compared up to rounding
    ensures('l2', lambda: result() >= 0 and abs(result() * result() - d2) * 1000000000 <= 1 + d2)


@lemma(args={'a': 'Action'}, props=['C08', 'C18'])
def action_kinds(a):
    from gym_gridverse.action import Action
    check('move-actions', lambda: a.is_move() == (a is Action.MOVE_FORWARD or a is Action.MOVE_BACKWARD
                                                  or a is Action.MOVE_LEFT or a is Action.MOVE_RIGHT))
    check('turn-actions', lambda: a.is_turn() == (a is Action.TURN_LEFT or a is Action.TURN_RIGHT))
