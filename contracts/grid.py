"""Contracts for gym_gridverse/grid.py (C01 C03 C05 C07 C09 C18)."""
from pyvc_rt import *
from contracts.spec import *
from gym_gridverse.geometry import Area, Orientation, Position, Shape
from gym_gridverse.grid import Grid
from gym_gridverse.grid_object import Floor, Hidden, NoneGridObject, Wall

GR = 'gym_gridverse.grid:'


def grid_src(o, c, h, w):
    """source cell (in a h x w grid) of cell c of the grid rotated by o"""
    return padd(rot(o, c), Position(0, 0) if o is F else (
        Position(0, w - 1) if o is R else (Position(h - 1, w - 1) if o is B else Position(h - 1, 0))))


@contract(target=GR + 'Grid.__getitem__', args={'self': 'Grid', 'position': 'Position'}, props=['C01', 'C05'])
def grid_getitem(self, position):
    h = self.shape.height
    w = self.shape.width
    y = position.y
    x = position.x
    inr = -h <= y and y < h and -w <= x and x < w
    ensures('python-index-semantics', lambda: returned() == inr)
    ensures('raises-indexerror', lambda: implies(not inr, lambda: raised(IndexError)))
    ensures('in-grid-exact', lambda: implies(in_grid(self, position), lambda: returned()))


@contract(target=GR + 'Grid.__setitem__', args={'self': 'Grid', 'position': 'Position', 'obj': 'Obj'}, props=['C01', 'C09'])
def grid_setitem(self, position, obj):
    requires(in_grid(self, position))
    g0 = old(self)
    ensures('total', lambda: returned())
    ensures('exact', lambda: forall_cells(self, lambda c: same(self[c], obj if c == position else g0[c])))
    ensures('shape', lambda: self.shape == g0.shape)


@contract(target=GR + 'Grid.swap', args={'self': 'Grid', 'p': 'Position', 'q': 'Position'}, props=['C09', 'C11'])
def grid_swap(self, p, q):
    requires(in_grid(self, p) and in_grid(self, q))
    g0 = old(self)
    ensures('total', lambda: returned())
    ensures('exchange', lambda: forall_cells(self, lambda c: same(
        self[c], g0[q] if c == p else (g0[p] if c == q else g0[c]))))
    ensures('shape', lambda: self.shape == g0.shape)


@contract(target=GR + 'Grid.get', args={'self': 'Grid', 'position': 'Position'}, props=['C01'], native=False)
def grid_get(self, position):
    pass


@contract(target=GR + 'Grid.from_shape', args={'shape': 'Shape'}, props=['C13'])
def grid_from_shape(shape):
    requires(shape.height >= 1 and shape.width >= 1)
    ensures('total', lambda: returned())
    ensures('shape', lambda: result().shape == shape)
    ensures('all-floor', lambda: forall_cells(result(), lambda c: isinstance(result()[c], Floor)))


@contract(target=GR + 'Grid.subgrid', args={'self': 'Grid', 'area': 'Area'}, props=['C03', 'C05', 'C07'])
def grid_subgrid(self, area):
    g0 = old(self)
    ensures('total', lambda: returned())
    ensures('shape', lambda: result().shape == Shape(area.height, area.width))
    ensures('cells', lambda: forall_cells(result(), lambda c: same(
        result()[c],
        self[Position(area.ymin + c.y, area.xmin + c.x)]
        if in_grid(self, Position(area.ymin + c.y, area.xmin + c.x)) else Hidden())))
    ensures('source-unchanged', lambda: same(self, g0))


@contract(target=GR + 'Grid.__mul__', args={'self': 'Grid', 'other': 'Orientation'}, props=['C05', 'C07', 'C18'])
def grid_mul(self, other):
    h = self.shape.height
    w = self.shape.width
    g0 = old(self)
    ensures('total', lambda: returned())
    ensures('shape', lambda: result().shape == (Shape(h, w) if (other is F or other is B) else Shape(w, h)))
    ensures('cells', lambda: forall_cells(result(), lambda c: in_grid(self, grid_src(other, c, h, w))
                                          and same(result()[c], self[grid_src(other, c, h, w)])))
    ensures('source-unchanged', lambda: same(self, g0))


@lemma(args={'g': 'Grid', 'o': 'Orientation'}, props=['C18', 'C07'])
def grid_rotation_inverse(g, o):
    check('undone-by-inverse', lambda: same((g * o) * -o, g))
    check('forward-is-identity', lambda: same(g * F, g))
    check('preserves-objects', lambda: forall_cells(g, lambda c: exists_cells(g * o, lambda d: same((g * o)[d], g[c])
                                                                           and grid_src(o, d, g.shape.height, g.shape.width) == c)))


@lemma(args={'g': 'Grid', 'a': 'Orientation', 'b': 'Orientation'}, props=['C18'])
def grid_rotation_compose(g, a, b):
    check('compose', lambda: same((g * a) * b, g * (a * b)))


@lemma(args={'a': 'Obj', 'b': 'Obj'}, props=['C03', 'C16'])
def grid_object_eq_hash(a, b):
    """equality is an equivalence on (type, status, colour) and equal objects hash alike"""
    check('reflexive', lambda: a == a)
    check('symmetric', lambda: (a == b) == (b == a))
    check('equal-objects-hash-alike', lambda: implies(a == b, lambda: hash(a) == hash(b)))
    check('eq-is-type-status-colour', lambda: (a == b) == (type(a) is type(b) and a.state_index == b.state_index
                                                          and a.color is b.color))


@lemma(args={'g': 'Grid', 's': 'State'}, props=['C03'])
def containers_eq_reflexive(g, s):
    check('grid-equals-itself', lambda: g == g)
    check('agent-equals-itself', lambda: s.agent == s.agent)
    check('state-equals-itself', lambda: s == s)


@contract(target='gym_gridverse.agent:Agent.__eq__', args={'self': 'Agent', 'other': 'Agent'}, props=['C03', 'C16'])
def agent_eq(self, other):
    ensures('total', lambda: returned())
    ensures('pose-and-item', lambda: result() == (self.position == other.position and self.orientation is other.orientation
                                                  and self.grid_object == other.grid_object))


@lemma(args={'a': 'Agent', 'b': 'Agent'}, props=['C03', 'C16'])
def agent_eq_hash(a, b):
    check('equal-agents-hash-alike', lambda: implies(a == b, lambda: hash(a) == hash(b)))
    check('reflexive', lambda: a == a)


@contract(target=GR + 'Grid.__eq__', args={'self': 'Grid', 'other': 'Grid'}, props=['C03', 'C16'])
def grid_eq(self, other):
    ensures('total', lambda: returned())
    ensures('shape-and-cellwise', lambda: result() == (self.shape == other.shape and forall_cells(
        self, lambda c: implies(in_grid(other, c), lambda: self[c] == other[c]))))


@lemma(args={'s': 'State', 'item': 'Obj'}, props=['C03'])
def state_equality_sees_every_component(s, item):
    """State equality compares grid (cellwise), pose and held item"""
    from gym_gridverse.agent import Agent
    from gym_gridverse.state import State
    t = State(s.grid, Agent(s.agent.position, s.agent.orientation, item))
    check('held-item-matters', lambda: (s == t) == (s.agent.grid_object == item))


@lemma(args={'g': 'Grid', 'h': 'Grid'}, props=['C03', 'C16'])
def grid_eq_hash(g, h):
    hg, hh = hash(g), hash(h)
    check('equal-grids-hash-alike', lambda: implies(g == h, hg == hh))


def rebuilt(s):
    """an equal state assembled through the public constructors, never hashed before"""
    from gym_gridverse.agent import Agent
    from gym_gridverse.grid import Grid
    from gym_gridverse.state import State
    return State(Grid(s.grid.objects), Agent(s.agent.position, s.agent.orientation, s.agent.grid_object))


@lemma(args={'s': 'State', 'action': 'Action'}, props=['C03'])
def hashing_is_history_independent(s, action):
    """hashing a state earlier (it was put in a set, say) must not change what later equal states hash to, also
    when a step changes a contained object in place (actuate_door opens the door of the copied state)"""
    from gym_gridverse.envs.transition_functions import actuate_door, transition_with_copy
    hash(s)                               # history: the input is hashed before the step
    n = transition_with_copy(actuate_door, s, action)
    m = rebuilt(n)
    check('rebuilt-next-state-is-equal', lambda: n == m)
    check('equal-next-states-hash-alike', lambda: hash(n) == hash(m))


@lemma(args={'s': 'State', 'action': 'Action'}, props=['C03'])
def hashing_is_history_independent_input(s, action):
    from gym_gridverse.envs.transition_functions import actuate_door, transition_with_copy
    hash(s)
    transition_with_copy(actuate_door, s, action)
    check('input-hash-unchanged-by-the-step', lambda: hash(s) == hash(rebuilt(s)))


@contract(target=GR + 'Grid.object_types', args={'self': 'Grid', 'c': 'Class'}, ghost=['c'], props=['C01', 'C15'])
def grid_object_types(self, c):
    g0 = old(self)
    ensures('total', lambda: returned())
    ensures('exactly-the-classes-of-the-cells', lambda: (c in result()) == exists_cells(self, lambda p: type(self[p]) is c))
    ensures('pure', lambda: same(self, g0))


@lemma(args={'p': 'Position', 'o': 'Orientation', 'item': 'Obj', 'p2': 'Position', 'o2': 'Orientation', 'item2': 'Obj'},
       props=['C03', 'C08', 'C16'])
def agent_accessors_follow_assignment(p, o, item, p2, o2, item2):
    """the dynamics move, turn and load the agent by assignment; everything read from the agent afterwards must be
    what an agent built with the new values gives"""
    from gym_gridverse.agent import Agent
    from gym_gridverse.geometry import Transform
    a = Agent(p, o, item)
    a.position = p2
    a.orientation = o2
    a.grid_object = item2
    b = Agent(p2, o2, item2)
    check('pose', lambda: a.position == p2 and a.orientation is o2 and a.transform == Transform(p2, o2))
    check('front-cell', lambda: a.front() == padd(p2, unit(o2)))
    check('equal-to-an-agent-built-with-the-new-values', lambda: a == b and hash(a) == hash(b))
    check('default-hand-is-empty', lambda: isinstance(Agent(p, o).grid_object, NoneGridObject))
