"""Contracts for gym_gridverse/gym.py (C20)."""
from pyvc_rt import *
from contracts.spec import *

GM = 'gym_gridverse.gym:'
OEM = 'gym_gridverse.outer_env:'
OSTEP = OEM + 'OuterEnv.step'
ORESET = OEM + 'OuterEnv.reset'
OOBS = OEM + 'OuterEnv.observation'
OSTATE = OEM + 'OuterEnv.state'
TOGYM = GM + 'outer_space_to_gym_space'
MKS = 'gym_gridverse.representations.state_representations:make_state_representation'
MKO = 'gym_gridverse.representations.observation_representations:make_observation_representation'

ASPACE = ('new', 'gym_gridverse.spaces:ActionSpace', [('list', 'Action', 8)])
INNER = ('object', {'action_space': ASPACE, 'state_space': 'Token', 'observation_space': 'Token', 'set_seed': ('fn', 'None')})
# the objects are built by the real constructors (fields added to the classes later get their constructor
# values); a representation only needs a `.space`, the empty dictionary of per-key spaces
REPSP = ('object', {'space': ('dict', {})})
OUTER = ('new', OEM + 'OuterEnv', [INNER], {'state_representation': ('opt', REPSP), 'observation_representation': ('opt', REPSP)})
GYM = ('new', GM + 'GymEnvironment', [OUTER])
# whatever representation the environment was built with, asking for one by name installs that one
REP_NAMES = ('oneof', ['default', 'no-overlap', 'compact', 'something-else'])


@contract(target=GM + 'GymEnvironment.step', args={'self': GYM, 'action': 'int'},
          stubs={OSTEP: ('tuple', ['float', 'bool']), OOBS: 'Token'}, props=['C20'])
def gym_step(self, action):
    requires(0 <= action and action < 8)      # the advertised Discrete(num_actions)
    actions = self.outer_env.inner_env.action_space.actions
    ensures('total', lambda: returned())
    ensures('index-i-executes-the-ith-action', lambda: ghost_calls(OSTEP) == 1
            and ghost_arg(OSTEP, 0, 0) is self.outer_env and ghost_arg(OSTEP, 0, 1) is actions[action])
    ensures('observation-read-after-the-step', lambda: ghost_calls(OOBS) == 1
            and ghost_seq(OSTEP, 0) < ghost_seq(OOBS, 0))
    ensures('returns-post-step-observation-reward-done-empty-info', lambda: result()[0] is ghost_result(OOBS, 0)
            and result()[1] == ghost_result(OSTEP, 0)[0] and result()[2] == ghost_result(OSTEP, 0)[1]
            and result()[3] == {} and len(result()) == 4)


@contract(target=GM + 'GymEnvironment.reset', args={'self': GYM}, stubs={ORESET: None, OOBS: 'Token'}, props=['C20'])
def gym_reset(self):
    ensures('total', lambda: returned())
    ensures('resets-then-reads-the-fresh-observation', lambda: ghost_calls(ORESET) == 1 and ghost_calls(OOBS) == 1
            and ghost_arg(ORESET, 0, 0) is self.outer_env and ghost_seq(ORESET, 0) < ghost_seq(OOBS, 0)
            and result() is ghost_result(OOBS, 0))


@contract(target=GM + 'GymEnvironment.__init__', args={'self': ('object', {}), 'outer_env': OUTER}, stubs={TOGYM: 'Token'},
          props=['C20'], native=False)
def gym_init(self, outer_env):
    ensures('total', lambda: returned())
    ensures('advertises-one-index-per-action', lambda: self.action_space.n == 8)
    ensures('spaces-from-the-representations', lambda: (
        (self.state_space is None) == (outer_env.state_representation is None)
        and (self.observation_space is None) == (outer_env.observation_representation is None)
        and implies(outer_env.observation_representation is not None, lambda: ghost_calls(TOGYM) >= 1)))


@contract(target=GM + 'GymEnvironment.set_state_representation', args={'self': GYM, 'name': REP_NAMES},
          stubs={MKS: ('object', {'space': 'Token'}), TOGYM: 'Token'}, props=['C20'])
def gym_set_state_representation(self, name):
    ensures('representation-and-advertised-space-change-together', lambda: returned()
            and ghost_calls(MKS) == 1 and ghost_arg(MKS, 0, 0) == name
            and ghost_arg(MKS, 0, 1) is self.outer_env.inner_env.state_space
            and self.outer_env.state_representation is ghost_result(MKS, 0)
            and ghost_calls(TOGYM) == 1 and ghost_arg(TOGYM, 0, 0) is ghost_result(MKS, 0).space
            and self.state_space is ghost_result(TOGYM, 0))


@contract(target=GM + 'GymEnvironment.set_observation_representation', args={'self': GYM, 'name': REP_NAMES},
          stubs={MKO: ('object', {'space': 'Token'}), TOGYM: 'Token'}, props=['C20'])
def gym_set_observation_representation(self, name):
    ensures('representation-and-advertised-space-change-together', lambda: returned()
            and ghost_calls(MKO) == 1 and ghost_arg(MKO, 0, 0) == name
            and ghost_arg(MKO, 0, 1) is self.outer_env.inner_env.observation_space
            and self.outer_env.observation_representation is ghost_result(MKO, 0)
            and ghost_calls(TOGYM) == 1 and ghost_arg(TOGYM, 0, 0) is ghost_result(MKO, 0).space
            and self.observation_space is ghost_result(TOGYM, 0))


SP = ('object', {'lower_bound': 'Token', 'upper_bound': 'Token', 'space_type': 'SpaceType'})


@contract(target=TOGYM, args={'space': ('dict', {'grid': SP, 'agent': SP})}, props=['C15', 'C20'], native=False)
def outer_space_to_gym(space):
    from gym_gridverse.representations.spaces import SpaceType
    ensures('total', lambda: returned())
    ensures('one-box-per-key-with-the-same-bounds', lambda: len(result().spaces) == 2 and all(
        result().spaces[k].low is space[k].lower_bound and result().spaces[k].high is space[k].upper_bound
        and (result().spaces[k].dtype is float) == (space[k].space_type is SpaceType.CONTINUOUS)
        and (result().spaces[k].dtype is float or result().spaces[k].dtype is int)
        for k in ['grid', 'agent']))


# ------------------------------------------------------------------------- state wrapper
GSTEP = GM + 'GymEnvironment.step'
GRESET = GM + 'GymEnvironment.reset'
GSTATE = GM + 'GymEnvironment.state'
WRAP = ('new', GM + 'GymStateWrapper', [GYM])


@contract(target=GM + 'GymStateWrapper.step', args={'self': WRAP, 'action': 'int'},
          stubs={GSTEP: ('tuple', ['Token', 'float', 'bool', ('dict', {})]), GSTATE: 'Token'}, props=['C20'])
def wrapper_step(self, action):
    ensures('total', lambda: returned())
    ensures('steps-the-wrapped-environment-with-the-same-index', lambda: ghost_calls(GSTEP) == 1
            and ghost_arg(GSTEP, 0, 0) is self.env and ghost_arg(GSTEP, 0, 1) == action)
    ensures('returns-the-post-step-state-and-passes-the-observation-through-info', lambda: ghost_calls(GSTATE) == 1
            and ghost_seq(GSTEP, 0) < ghost_seq(GSTATE, 0) and result()[0] is ghost_result(GSTATE, 0)
            and result()[1] == ghost_result(GSTEP, 0)[1] and result()[2] == ghost_result(GSTEP, 0)[2]
            and result()[3]['observation'] is ghost_result(GSTEP, 0)[0])


@contract(target=GM + 'GymStateWrapper.reset', args={'self': WRAP}, stubs={GRESET: 'Token', GSTATE: 'Token'}, props=['C20'])
def wrapper_reset(self):
    ensures('total', lambda: returned())
    ensures('resets-then-returns-the-state', lambda: ghost_calls(GRESET) == 1 and ghost_calls(GSTATE) == 1
            and ghost_seq(GRESET, 0) < ghost_seq(GSTATE, 0) and result() is ghost_result(GSTATE, 0))


# ------------------------------------------------------------------------- short histories
# (see contracts/envs.py: a read before an operation must not change what is read after it)
def last_call(f):
    return ghost_calls(f) - 1


@lemma(args={'outer_env': OUTER, 'action': 'int'},
       stubs={TOGYM: 'Token', OSTEP: ('tuple', ['float', 'bool']), ORESET: None, OOBS: 'Token', OSTATE: 'Token'}, props=['C20'])
def gym_reads_follow_reset_and_step(outer_env, action):
    from gym_gridverse.gym import GymEnvironment, GymStateWrapper
    if 0 <= action and action < 8:
        g = GymEnvironment(outer_env)
        w = GymStateWrapper(g)
        o0 = g.reset()
        g.state                      # earlier reads (may fill memos)
        g.observation
        o1 = g.reset()
        check('reset-returns-an-observation-read-after-it', lambda: ghost_calls(ORESET) == 2
              and o1 is ghost_result(OOBS, last_call(OOBS)) and ghost_seq(ORESET, 1) < ghost_seq(OOBS, last_call(OOBS)))
        s1 = g.state
        check('state-is-read-after-the-reset', lambda: s1 is ghost_result(OSTATE, last_call(OSTATE))
              and ghost_seq(ORESET, 1) < ghost_seq(OSTATE, last_call(OSTATE)))
        g.observation
        r = g.step(action)
        check('step-returns-an-observation-read-after-it', lambda: ghost_calls(OSTEP) == 1
              and r[0] is ghost_result(OOBS, last_call(OOBS)) and ghost_seq(OSTEP, 0) < ghost_seq(OOBS, last_call(OOBS)))
        s2 = g.state
        check('state-is-read-after-the-step', lambda: s2 is ghost_result(OSTATE, last_call(OSTATE))
              and ghost_seq(OSTEP, 0) < ghost_seq(OSTATE, last_call(OSTATE)))
        s3 = w.reset()
        check('wrapper-reset-returns-the-state-read-after-it', lambda: ghost_calls(ORESET) == 3
              and s3 is ghost_result(OSTATE, last_call(OSTATE)) and ghost_seq(ORESET, 2) < ghost_seq(OSTATE, last_call(OSTATE)))
        t = w.step(action)
        check('wrapper-step-returns-the-state-read-after-it', lambda: ghost_calls(OSTEP) == 2
              and t[0] is ghost_result(OSTATE, last_call(OSTATE)) and ghost_seq(OSTEP, 1) < ghost_seq(OSTATE, last_call(OSTATE))
              and t[3]['observation'] is ghost_result(OOBS, last_call(OOBS))
              and ghost_seq(OSTEP, 1) < ghost_seq(OOBS, last_call(OOBS)))
        u = w.step(action)
        check('second-wrapper-step-passes-its-own-observation-through-info', lambda: ghost_calls(OSTEP) == 3
              and u[0] is ghost_result(OSTATE, last_call(OSTATE)) and ghost_seq(OSTEP, 2) < ghost_seq(OSTATE, last_call(OSTATE))
              and u[3]['observation'] is ghost_result(OOBS, last_call(OOBS))
              and ghost_seq(OSTEP, 2) < ghost_seq(OOBS, last_call(OOBS))
              and u[1] == ghost_result(OSTEP, 2)[0] and u[2] == ghost_result(OSTEP, 2)[1])
        r2 = g.step(action)
        check('plain-step-info-is-empty-again', lambda: len(r2[3]) == 0)


# ------------------------------------------------------------------------- reads and seeding
@contract(target=GM + 'GymEnvironment.state', args={'self': GYM}, stubs={OSTATE: 'Token'}, props=['C20'])
def gym_state(self):
    ensures('the-outer-environment-state', lambda: returned() and ghost_calls(OSTATE) == 1
            and ghost_arg(OSTATE, 0, 0) is self.outer_env and result() is ghost_result(OSTATE, 0))


@contract(target=GM + 'GymEnvironment.observation', args={'self': GYM}, stubs={OOBS: 'Token'}, props=['C20'])
def gym_observation(self):
    ensures('the-outer-environment-observation', lambda: returned() and ghost_calls(OOBS) == 1
            and ghost_arg(OOBS, 0, 0) is self.outer_env and result() is ghost_result(OOBS, 0))


@contract(target=GM + 'GymStateWrapper.observation', args={'self': WRAP}, stubs={GSTATE: 'Token'}, props=['C20'])
def wrapper_observation(self):
    ensures('the-wrapped-environment-state', lambda: returned() and ghost_calls(GSTATE) == 1
            and ghost_arg(GSTATE, 0, 0) is self.env and result() is ghost_result(GSTATE, 0))


# native=False: setup.py pins gym<=0.21.0, whose seeding.create_seed(seed) returns an explicit seed unchanged (that is the
# modelled API); the sandbox has gym 0.26.2, where create_seed no longer exists and the real method raises AttributeError
@contract(target=GM + 'GymEnvironment.seed', args={'self': GYM, 'seed': 'nat'}, props=['C20', 'C02'], native=False)
def gym_seed(self, seed):
    inner = self.outer_env.inner_env
    ensures('seeds-the-inner-environment-with-the-reported-seed', lambda: returned() and len(result()) == 1
            and ghost_calls(inner.set_seed) == 1 and ghost_arg(inner.set_seed, 0, 0) == result()[0])
    ensures('an-explicit-seed-is-used-as-given', lambda: result()[0] == seed)


@contract(target=GM + 'GymStateWrapper', args={'env': GYM},
          stubs={MKS: ('object', {'space': 'Token'}), MKO: ('object', {'space': 'Token'}), TOGYM: 'Token'}, props=['C20'])
def wrapper_init(env):
    """wrapping does not change the wrapped environment: the wrapper advertises the state space the environment
    was configured with"""
    srep = old(env.outer_env.state_representation)
    orep = old(env.outer_env.observation_representation)
    sspace = old(env.state_space)
    ospace = old(env.observation_space)
    ensures('total', lambda: returned())
    ensures('wrapped-environment-unchanged', lambda: same(env.outer_env.state_representation, srep)
            and same(env.outer_env.observation_representation, orep) and same(env.state_space, sspace)
            and same(env.observation_space, ospace) and ghost_calls(MKS) == 0 and ghost_calls(MKO) == 0)
    # (without a state representation there is nothing to advertise; what a gym Wrapper then reports differs between
    # gym versions)
    ensures('advertises-the-configured-state-space', lambda: result().env is env and implies(
        env.state_space is not None, lambda: result().observation_space is env.state_space))
