"""Contracts for gym_gridverse/envs/transition_functions.py (C01 C03 C08 C09 C10 C11)."""
from pyvc_rt import *
from contracts.spec import *
from gym_gridverse.action import Action
from gym_gridverse.geometry import Orientation, Position
from gym_gridverse.grid_object import (Box, Color, Door, Floor, Key, MovingObstacle,
                                       NoneGridObject, Telepod)

T = 'gym_gridverse.envs.transition_functions:'
SAR = {'state': 'State', 'action': 'Action', 'rng': 'Rng'}


@contract(target=T + 'move_agent', args=SAR, kwonly=['rng'], props=['C02', 'C01', 'C03', 'C08', 'C09', 'C10'])
def move_agent(state, action, rng):
    requires(in_grid(state.grid, state.agent.position))
    p0 = old(state.agent.position)
    o0 = old(state.agent.orientation)
    g0 = old(state.grid)
    it0 = old(state.agent.grid_object)
    tgt = move_target(p0, o0, action)
    go = is_move(action) and in_grid(g0, tgt) and not g0[tgt].blocks_movement
    ensures('total', lambda: returned())
    ensures('exact', lambda: state.agent.position == (tgt if go else p0))
    ensures('stays-in-grid', lambda: in_grid(state.grid, state.agent.position))
    ensures('frame', lambda: state.agent.orientation is o0 and same(state.grid, g0)
            and same(state.agent.grid_object, it0))
    ensures('no-draw', lambda: draws(rng) == 0)
    ensures_native('multiset-preserved', lambda: ms(state.grid, state.agent.grid_object) == ms(g0, it0))


@contract(target=T + 'turn_agent', args=SAR, kwonly=['rng'], props=['C02', 'C01', 'C03', 'C08', 'C09', 'C10'])
def turn_agent(state, action, rng):
    p0 = old(state.agent.position)
    o0 = old(state.agent.orientation)
    g0 = old(state.grid)
    it0 = old(state.agent.grid_object)
    ensures('total', lambda: returned())
    ensures('exact', lambda: state.agent.orientation is (
        turn(o0, L) if action is Action.TURN_LEFT else (turn(o0, R) if action is Action.TURN_RIGHT else o0)))
    ensures('frame', lambda: state.agent.position == p0 and same(state.grid, g0)
            and same(state.agent.grid_object, it0))
    ensures('no-draw', lambda: draws(rng) == 0)


@contract(target=T + 'pickndrop', args=SAR, kwonly=['rng'], props=['C02', 'C01', 'C03', 'C08', 'C09', 'C10'])
def pickndrop(state, action, rng):
    requires(in_grid(state.grid, state.agent.position))
    p0 = old(state.agent.position)
    o0 = old(state.agent.orientation)
    g0 = old(state.grid)
    hand = old(state.agent.grid_object)
    fr = padd(p0, unit(o0))
    infront = in_grid(g0, fr)
    act = action is Action.PICK_N_DROP and infront and (isinstance(g0[fr], Floor) or g0[fr].holdable)
    ensures('total', lambda: returned())
    ensures('inert', lambda: implies(not act, lambda: same(state.grid, g0) and same(state.agent.grid_object, hand)))
    ensures('exchange', lambda: implies(act, lambda:
            same(state.grid[fr], hand if not isinstance(hand, NoneGridObject) else Floor())
            and same(state.agent.grid_object, g0[fr] if g0[fr].holdable else NoneGridObject())))
    ensures('other-cells', lambda: forall_cells(state.grid, lambda c: implies(c != fr, lambda: same(state.grid[c], g0[c]))))
    ensures('shape', lambda: state.grid.shape == g0.shape)
    ensures('pose', lambda: state.agent.position == p0 and state.agent.orientation is o0)
    ensures('no-draw', lambda: draws(rng) == 0)
    ensures_native('multiset-preserved', lambda: ms(state.grid, state.agent.grid_object) == ms(g0, hand))


@contract(target=T + 'actuate_door', args=SAR, kwonly=['rng'], props=['C02', 'C01', 'C03', 'C08', 'C09', 'C10'])
def actuate_door(state, action, rng):
    requires(in_grid(state.grid, state.agent.position))
    p0 = old(state.agent.position)
    o0 = old(state.agent.orientation)
    g0 = old(state.grid)
    hand = old(state.agent.grid_object)
    fr = padd(p0, unit(o0))
    act = action is Action.ACTUATE and in_grid(g0, fr) and isinstance(g0[fr], Door)
    opens = act and (g0[fr].state is Door.Status.CLOSED or (
        g0[fr].state is Door.Status.LOCKED and isinstance(hand, Key) and hand.color is g0[fr].color))
    ensures('total', lambda: returned())
    ensures('exact', lambda: forall_cells(state.grid, lambda c: same(
        state.grid[c], Door(Door.Status.OPEN, g0[fr].color) if (opens and c == fr) else g0[c])))
    ensures_native('multiset-preserved-up-to-door-status', lambda: len(ms(state.grid, state.agent.grid_object)) == len(ms(g0, hand)))
    ensures('shape', lambda: state.grid.shape == g0.shape)
    ensures('agent-untouched', lambda: state.agent.position == p0 and state.agent.orientation is o0
            and same(state.agent.grid_object, hand))
    ensures('no-draw', lambda: draws(rng) == 0)


@contract(target=T + 'actuate_box', args=SAR, kwonly=['rng'], props=['C02', 'C01', 'C03', 'C08', 'C09', 'C10'])
def actuate_box(state, action, rng):
    requires(in_grid(state.grid, state.agent.position))
    p0 = old(state.agent.position)
    o0 = old(state.agent.orientation)
    g0 = old(state.grid)
    hand = old(state.agent.grid_object)
    fr = padd(p0, unit(o0))
    act = action is Action.ACTUATE and in_grid(g0, fr) and isinstance(g0[fr], Box)
    ensures('total', lambda: returned())
    ensures('exact', lambda: forall_cells(state.grid, lambda c: same(
        state.grid[c], g0[fr].content if (act and c == fr) else g0[c])))
    ensures_native('multiset-preserved-unless-box-opened', lambda: act or ms(state.grid, state.agent.grid_object) == ms(g0, hand))
    ensures('shape', lambda: state.grid.shape == g0.shape)
    ensures('agent-untouched', lambda: state.agent.position == p0 and state.agent.orientation is o0
            and same(state.agent.grid_object, hand))
    ensures('no-draw', lambda: draws(rng) == 0)


@contract(target=T + 'teleport', args=SAR, kwonly=['rng'], props=['C02', 'C01', 'C03', 'C08', 'C09', 'C10', 'C11'])
def teleport(state, action, rng):
    requires(in_grid(state.grid, state.agent.position))
    p0 = old(state.agent.position)
    o0 = old(state.agent.orientation)
    g0 = old(state.grid)
    hand = old(state.agent.grid_object)
    on_pod = isinstance(g0[p0], Telepod)
    def partner(q):
        return q != p0 and isinstance(g0[q], Telepod) and g0[q].color is g0[p0].color
    has_partner = on_pod and exists_cells(g0, partner)
    ensures('total', lambda: returned())
    ensures('to-partner', lambda: implies(has_partner, lambda: in_grid(g0, state.agent.position)
                                          and partner(state.agent.position)))
    ensures('else-stay', lambda: implies(not has_partner, lambda: state.agent.position == p0))
    ensures('frame', lambda: state.agent.orientation is o0 and same(state.grid, g0)
            and same(state.agent.grid_object, hand))
    # how many draws a choice among partners takes is not part of the property (a single-pass sampler draws
    # once per candidate): only 'nothing to choose => nothing drawn' is demanded, like the deterministic transitions
    ensures('draws-only-on-pod', lambda: implies(not has_partner, lambda: draws(rng) == 0))
    ensures('each-partner-possible', lambda: forall_cells(g0, lambda q: implies(
        on_pod and partner(q), lambda: possible(rng, lambda: state.agent.position == q))))


# ------------------------------------------------------------------ move_obstacles
def fo(o):
    """floor or moving obstacle: the only cell contents move_obstacles may touch"""
    return isinstance(o, Floor) or isinstance(o, MovingObstacle)


def mo_inv(k, n, item, pre, state):
    g = state.grid
    g0 = pre.state.grid
    declared = contract_input('declared', None)   # only the closure contract has it
    return (g.shape == g0.shape
            and (declared is None or forall_cells(g, lambda c: declared(g[c])))
            # scenery never moves; floor/obstacle cells stay floor/obstacle cells
            and forall_cells(g, lambda c: (same(g[c], g0[c]) if not fo(g0[c]) else fo(g[c])))
            # obstacles whose turn has not come are still where they were collected
            and forall_int(k, n, lambda j: in_grid(g, item(j)) and isinstance(g[item(j)], MovingObstacle))
            and forall_int(0, n, lambda j: in_grid(g0, item(j)) and isinstance(g0[item(j)], MovingObstacle))
            # an obstacle is found only where one was, or on a former floor cell next to a former obstacle
            and forall_cells(g, lambda c: implies(isinstance(g[c], MovingObstacle), lambda: near_obstacle(g0, c))))


def near_obstacle(g0, c):
    def was_obstacle(q):
        return in_grid(g0, q) and isinstance(g0[q], MovingObstacle)
    return isinstance(g0[c], MovingObstacle) or (isinstance(g0[c], Floor) and (
        was_obstacle(padd(c, unit(F))) or was_obstacle(padd(c, unit(R)))
        or was_obstacle(padd(c, unit(B))) or was_obstacle(padd(c, unit(L)))))


def count_cells(grid, pred):
    return sum(1 for p in grid.area.positions() if pred(grid[p]))


def mo_step_rule(before, state, position, next_positions):
    """at its turn an obstacle moves to a 4-neighbour that was floor, or stays iff it has none"""
    g = state.grid
    b = before.state.grid
    def free(q):
        return in_grid(b, q) and isinstance(b[q], Floor)
    def swapped_with(q):
        return free(q) and forall_cells(g, lambda c: same(g[c], b[q] if c == position else (b[position] if c == q else b[c])))
    n1 = padd(position, unit(F))
    n2 = padd(position, unit(R))
    n3 = padd(position, unit(B))
    n4 = padd(position, unit(L))
    none_free = not free(n1) and not free(n2) and not free(n3) and not free(n4)
    return (same(g, b) and none_free) or swapped_with(n1) or swapped_with(n2) or swapped_with(n3) or swapped_with(n4)


def mo_step_support(before, state, position, next_positions):
    """every free neighbour is a possible destination: it is next_positions[i] for an i the
    generator may return (rng.choice(n) is any 0 <= i < n)"""
    b = before.state.grid
    def free(q):
        return in_grid(b, q) and isinstance(b[q], Floor)
    def cnt(q):
        return 1 if free(q) else 0
    def listed(q, i):
        # explicit witness: the number of free neighbours listed before q (boundary order F, R, B, L)
        return implies(free(q), lambda: 0 <= i and i < len(next_positions) and next_positions[i] == q)
    n1 = padd(position, unit(F))
    n2 = padd(position, unit(R))
    n3 = padd(position, unit(B))
    n4 = padd(position, unit(L))
    return (listed(n1, 0) and listed(n2, cnt(n1)) and listed(n3, cnt(n1) + cnt(n2))
            and listed(n4, cnt(n1) + cnt(n2) + cnt(n3)))


def mo_step_draw(before, state, rng, next_positions):
    return True


loop_invariant(target=T + 'move_obstacles', loop=0, kind='indexed', modifies=['state'],
               step={'rule': mo_step_rule, 'every-free-neighbour-possible': mo_step_support})(mo_inv)


@contract(target=T + 'move_obstacles', args=SAR, kwonly=['rng'], props=['C02', 'C01', 'C03', 'C08', 'C09', 'C10', 'C11'])
def move_obstacles(state, action, rng):
    s0 = old(state)
    g0 = s0.grid
    ensures('total', lambda: returned())
    ensures('shape', lambda: state.grid.shape == g0.shape)
    ensures('scenery-never-moves', lambda: forall_cells(state.grid, lambda c: implies(
        not fo(g0[c]), lambda: same(state.grid[c], g0[c]))))
    ensures('only-floor-and-obstacles-trade-places', lambda: forall_cells(state.grid, lambda c: implies(
        fo(g0[c]), lambda: fo(state.grid[c]))))
    ensures('agent-untouched', lambda: state.agent.position == s0.agent.position
            and state.agent.orientation is s0.agent.orientation and same(state.agent.grid_object, s0.agent.grid_object))
    ensures('obstacles-move-at-most-one-step-onto-floor', lambda: forall_cells(state.grid, lambda c: implies(
        isinstance(state.grid[c], MovingObstacle), lambda: near_obstacle(g0, c))))
    ensures_native('multiset-preserved', lambda: ms(state.grid, state.agent.grid_object) == ms(g0, s0.agent.grid_object))
    ensures_native('no-obstacle-lost-or-duplicated', lambda: count_cells(state.grid, lambda o: isinstance(o, MovingObstacle))
                   == count_cells(g0, lambda o: isinstance(o, MovingObstacle)))
    ensures_native('a-legal-outcome-of-the-turn-by-turn-rule', lambda: obstacle_layout(state.grid) in legal_obstacle_layouts(g0))


def obstacle_layout(grid):
    return frozenset((p.y, p.x) for p in grid.area.positions() if isinstance(grid[p], MovingObstacle))


def legal_obstacle_layouts(g0, max_obstacles=4):
    """Reference model written from the statement (native only, bounded stand-in): obstacles take their turns one
    after the other; at its turn an obstacle moves to one of its four neighbours that is floor *then*, and stays only
    if it has none.  The statement fixes no order of turns, so every order is admitted.  Returns the set of possible
    final obstacle layouts (a set containing every layout when there are more than `max_obstacles` obstacles)."""
    import itertools
    h, w = g0.shape.height, g0.shape.width
    floor0 = {(p.y, p.x) for p in g0.area.positions() if isinstance(g0[p], Floor)}
    obst0 = [(p.y, p.x) for p in g0.area.positions() if isinstance(g0[p], MovingObstacle)]

    class Everything:
        def __contains__(self, x):
            return True
    if len(obst0) > max_obstacles:
        return Everything()
    out = set()
    for order in itertools.permutations(range(len(obst0))):
        frontier = {(frozenset(floor0), tuple(obst0))}
        for k in order:
            nxt = set()
            for floor, obst in frontier:
                y, x = obst[k]
                free = [(y + dy, x + dx) for dy, dx in ((-1, 0), (1, 0), (0, -1), (0, 1)) if (y + dy, x + dx) in floor]
                if not free:
                    nxt.add((floor, obst))
                for q in free:
                    o2 = list(obst)
                    o2[k] = q
                    nxt.add(((floor - {q}) | {(y, x)}, tuple(o2)))
            frontier = nxt
        out |= {frozenset(obst) for _, obst in frontier}
    return out


# ------------------------------------------------------------------ chain / transition_with_copy
FN3 = ('list', ('fn', 'None'), 3)
FC = 'gym_gridverse.utils.fast_copy:fast_copy'


@contract(target=T + 'chain', args={'state': 'State', 'action': 'Action', 'transition_functions': FN3, 'rng': 'Rng'},
          kwonly=['transition_functions', 'rng'], props=['C01', 'C02', 'C03', 'C08', 'C09', 'C10', 'C11'])
def chain(state, action, transition_functions, rng):
    tfs = transition_functions
    ensures('total', lambda: returned())
    ensures('each-part-once-in-order-with-the-same-arguments', lambda: forall_int(0, 3, lambda i: (
        ghost_calls(tfs[i]) == 1 and ghost_arg(tfs[i], 0, 0) is state and ghost_arg(tfs[i], 0, 1) is action
        and ghost_kwarg(tfs[i], 0, 'rng') is rng))
        and ghost_seq(tfs[0], 0) < ghost_seq(tfs[1], 0) and ghost_seq(tfs[1], 0) < ghost_seq(tfs[2], 0))
    ensures('no-own-draw', lambda: draws(rng) == 0)


@contract(target=T + 'transition_with_copy',
          args={'transition_function': ('fn', 'None'), 'state': 'State', 'action': 'Action', 'rng': 'Rng'},
          kwonly=['rng'], props=['C01', 'C02', 'C03', 'C08', 'C09', 'C10', 'C11'])
def transition_with_copy(transition_function, state, action, rng):
    """stated over what the caller can observe (how the copy is made is not prescribed): the transition runs once,
    on a deep copy that shares nothing mutable with the input, and that copy is returned"""
    s0 = old(state)
    tf = transition_function
    ensures('total', lambda: returned())
    ensures('transition-runs-once-on-another-state-with-the-same-arguments', lambda: ghost_calls(tf) == 1
            and ghost_arg(tf, 0, 0) is not state and ghost_arg(tf, 0, 1) is action and ghost_kwarg(tf, 0, 'rng') is rng)
    ensures('that-state-is-a-copy-of-the-input', lambda: same(ghost_arg(tf, 0, 0), s0))
    ensures('returns-the-transitioned-copy', lambda: result() is ghost_arg(tf, 0, 0))
    ensures('input-state-untouched', lambda: same(state, s0))
    ensures('shares-no-mutable-component', lambda: result().grid is not state.grid and result().agent is not state.agent
            and result().agent.transform is not state.agent.transform and result().grid.objects is not state.grid.objects)
    ensures_native('shares-no-row-and-no-mutable-object', lambda: all(
        a is not b for a, b in zip(result().grid.objects, state.grid.objects)) and disjoint_mutable_objects(result(), state))
    ensures('no-own-draw', lambda: draws(rng) == 0)


def disjoint_mutable_objects(a, b):
    """no Door / Box instance (also inside boxes, also the held item) of one state is an object of the other (native)"""
    def collect(s):
        out = []
        objs = [o for row in s.grid.objects for o in row] + [s.agent.grid_object]
        for o in objs:
            while isinstance(o, (Door, Box)):
                out.append(id(o))
                if not isinstance(o, Box):
                    break
                o = o.content
        return set(out)
    return not (collect(a) & collect(b))


# ------------------------------------------------------------------ closure (C01) and the kinematic invariant (C08)
# `declared` is an arbitrary predicate on objects standing for "conforms to the declared space" (type and
# colour declared, recursively for box contents).  Every built-in transition keeps all cells and the held
# item declared, for every such predicate that is closed under the operations the dynamics perform.
def space_closed(declared):
    return (forall_obj(lambda o: implies(isinstance(o, Box) and declared(o), lambda: declared(o.content)))
            and forall_obj(lambda o: implies(isinstance(o, Door) and declared(o),
                                             lambda: declared(Door(Door.Status.OPEN, o.color)))))


def state_declared(declared, state):
    return (in_grid(state.grid, state.agent.position)
            and forall_cells(state.grid, lambda c: declared(state.grid[c]))
            and (declared(state.agent.grid_object) or isinstance(state.agent.grid_object, NoneGridObject)))


def agent_free(state):
    """the agent stands inside the grid on a cell that does not block movement"""
    return in_grid(state.grid, state.agent.position) and not state.grid[state.agent.position].blocks_movement


def closure(state, action, rng, declared, needs_floor):
    requires(space_closed(declared) and state_declared(declared, state))
    requires(implies(needs_floor, lambda: declared(Floor())))
    shape0 = old(state.grid.shape)
    free0 = old(agent_free(state))
    ensures('total', lambda: returned())
    ensures('stays-in-the-space', lambda: state.grid.shape == shape0 and state_declared(declared, state))
    ensures('agent-stays-on-a-free-cell', lambda: implies(free0, lambda: agent_free(state)))


CARGS = dict(SAR, declared='ObjPred')


@contract(target=T + 'move_agent', args=CARGS, kwonly=['rng'], ghost=['declared'], props=['C01', 'C08'])
def closure_move_agent(state, action, rng, declared):
    closure(state, action, rng, declared, False)


@contract(target=T + 'turn_agent', args=CARGS, kwonly=['rng'], ghost=['declared'], props=['C01', 'C08'])
def closure_turn_agent(state, action, rng, declared):
    closure(state, action, rng, declared, False)


@contract(target=T + 'pickndrop', args=CARGS, kwonly=['rng'], ghost=['declared'], props=['C01', 'C08'])
def closure_pickndrop(state, action, rng, declared):
    # documented precondition: the space declares Floor (picking up leaves a floor cell)
    closure(state, action, rng, declared, True)


@contract(target=T + 'actuate_door', args=CARGS, kwonly=['rng'], ghost=['declared'], props=['C01', 'C08'])
def closure_actuate_door(state, action, rng, declared):
    closure(state, action, rng, declared, False)


@contract(target=T + 'actuate_box', args=CARGS, kwonly=['rng'], ghost=['declared'], props=['C01', 'C08'])
def closure_actuate_box(state, action, rng, declared):
    closure(state, action, rng, declared, False)


@contract(target=T + 'teleport', args=CARGS, kwonly=['rng'], ghost=['declared'], props=['C01', 'C08'])
def closure_teleport(state, action, rng, declared):
    closure(state, action, rng, declared, False)


@contract(target=T + 'move_obstacles', args=CARGS, kwonly=['rng'], ghost=['declared'], props=['C01', 'C08'])
def closure_move_obstacles(state, action, rng, declared):
    closure(state, action, rng, declared, False)


# ------------------------------------------------------------------ small lemmas over the real functions
@lemma(args={'state': 'State'}, props=['C08', 'C18'])
def turns_compose(state):
    """left then right, or four equal turns, restore the heading; turns never displace"""
    from gym_gridverse.envs.transition_functions import turn_agent as ta
    o0 = state.agent.orientation
    p0 = state.agent.position
    ta(state, Action.TURN_LEFT)
    o1 = state.agent.orientation
    ta(state, Action.TURN_RIGHT)
    check('left-then-right', lambda: state.agent.orientation is o0 and state.agent.position == p0)
    check('left-is-a-quarter-turn', lambda: o1 is turn(o0, L) and o1 is not o0)
    ta(state, Action.TURN_RIGHT)
    ta(state, Action.TURN_RIGHT)
    ta(state, Action.TURN_RIGHT)
    ta(state, Action.TURN_RIGHT)
    check('four-rights', lambda: state.agent.orientation is o0 and state.agent.position == p0)


@lemma(args={'status': 'DoorStatus', 'color': 'Color'}, props=['C08', 'C10'])
def door_flags(status, color):
    """doors block movement and vision unless open; they are never holdable and keep their colour"""
    d = Door(status, color)
    is_open = status is Door.Status.OPEN
    check('blocking-unless-open', lambda: d.blocks_movement == (not is_open) and d.blocks_vision == (not is_open))
    check('flags', lambda: d.is_open == is_open and d.is_locked == (status is Door.Status.LOCKED)
          and not d.holdable and d.color is color and d.state is status)


@lemma(args={'o': 'Obj'}, props=['C09', 'C10'])
def holdable_objects(o):
    """only keys can be picked up; walls, doors, exits, boxes, telepods, beacons, obstacles cannot"""
    check('only-keys', lambda: o.holdable == isinstance(o, Key))


def ms(grid, hand):
    """all non-floor objects on the grid together with the held item (native only)"""
    def key(o):
        return repr(o) + ':' + str(o.color) + (':' + key(o.content) if isinstance(o, Box) else '')
    objs = [grid[p] for p in grid.area.positions()] + [hand]
    return sorted(key(o) for o in objs if not isinstance(o, Floor) and not isinstance(o, NoneGridObject))


# ------------------------------------------------------------------ fast_copy (pickle round trip: outside the symbolic
# verifier; evaluated natively only = bounded stand-in for the assumption the C03 proofs use)
def twin(state):
    """a state that `==` cannot tell from `state` but that differs inside its boxes"""
    from gym_gridverse.agent import Agent
    from gym_gridverse.grid import Grid
    from gym_gridverse.state import State
    def alt(o):
        return Box(Key(Color.RED) if not isinstance(o.content, Key) else Floor()) if isinstance(o, Box) else o
    g = Grid([[alt(state.grid[Position(y, x)]) for x in range(state.grid.shape.width)]
              for y in range(state.grid.shape.height)])
    return State(g, Agent(state.agent.position, state.agent.orientation, alt(state.agent.grid_object)))


@contract(target='gym_gridverse.utils.fast_copy:fast_copy', args={'x': 'State'}, props=['C03'], bounded=True)
def fast_copy_is_a_deep_copy(x):
    from gym_gridverse.utils.fast_copy import fast_copy
    x0 = old(x)
    warm = old(fast_copy(twin(x)))      # an earlier copy of a look-alike state (cache history)
    ensures('total', lambda: returned())
    ensures('structurally-equal-including-box-contents', lambda: same(result(), x0) and result() == x0
            and hash(result().grid) == hash(x0.grid) and hash(result().agent) == hash(x0.agent))
    ensures('shares-no-mutable-component', lambda: result() is not x and result().grid is not x.grid
            and result().agent is not x.agent and result().grid.objects is not x.grid.objects
            and all(a is not b for a, b in zip(result().grid.objects, x.grid.objects))
            and result().agent.transform is not x.agent.transform)
    ensures('input-untouched', lambda: same(x, x0))
