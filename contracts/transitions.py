"""Contracts for gym_gridverse/envs/transition_functions.py (C01 C03 C08 C09 C10 C11)."""
from pyvc_rt import *
from contracts.spec import *
from gym_gridverse.action import Action
from gym_gridverse.geometry import Orientation, Position
from gym_gridverse.grid_object import (Box, Color, Door, Floor, Key, MovingObstacle,
                                       NoneGridObject, Telepod)

T = 'gym_gridverse.envs.transition_functions:'
SAR = {'state': 'State', 'action': 'Action', 'rng': 'Rng'}


@contract(target=T + 'move_agent', args=SAR, kwonly=['rng'], props=['C01', 'C03', 'C08', 'C09', 'C10'])
def move_agent(state, action, rng):
    requires(in_grid(state.grid, state.agent.position))
    p0 = old(state.agent.position)
    o0 = old(state.agent.orientation)
    g0 = old(state.grid)
    it0 = old(state.agent.grid_object)
    tgt = move_target(p0, o0, action)
    go = is_move(action) and in_grid(g0, tgt) and not g0[tgt].blocks_movement
    ensures('total', lambda: returned())
    ensures('exact', lambda: state.agent.position == (tgt if go else p0))
    ensures('stays-in-grid', lambda: in_grid(state.grid, state.agent.position))
    ensures('frame', lambda: state.agent.orientation is o0 and same(state.grid, g0)
            and same(state.agent.grid_object, it0))
    ensures('no-draw', lambda: draws(rng) == 0)


@contract(target=T + 'turn_agent', args=SAR, kwonly=['rng'], props=['C01', 'C03', 'C08', 'C09', 'C10'])
def turn_agent(state, action, rng):
    p0 = old(state.agent.position)
    o0 = old(state.agent.orientation)
    g0 = old(state.grid)
    it0 = old(state.agent.grid_object)
    ensures('total', lambda: returned())
    ensures('exact', lambda: state.agent.orientation is (
        turn(o0, L) if action is Action.TURN_LEFT else (turn(o0, R) if action is Action.TURN_RIGHT else o0)))
    ensures('frame', lambda: state.agent.position == p0 and same(state.grid, g0)
            and same(state.agent.grid_object, it0))
    ensures('no-draw', lambda: draws(rng) == 0)


@contract(target=T + 'pickndrop', args=SAR, kwonly=['rng'], props=['C01', 'C03', 'C08', 'C09', 'C10'])
def pickndrop(state, action, rng):
    requires(in_grid(state.grid, state.agent.position))
    p0 = old(state.agent.position)
    o0 = old(state.agent.orientation)
    g0 = old(state.grid)
    hand = old(state.agent.grid_object)
    fr = padd(p0, unit(o0))
    infront = in_grid(g0, fr)
    act = action is Action.PICK_N_DROP and infront and (isinstance(g0[fr], Floor) or g0[fr].holdable)
    ensures('total', lambda: returned())
    ensures('inert', lambda: implies(not act, lambda: same(state.grid, g0) and same(state.agent.grid_object, hand)))
    ensures('exchange', lambda: implies(act, lambda:
            same(state.grid[fr], hand if not isinstance(hand, NoneGridObject) else Floor())
            and same(state.agent.grid_object, g0[fr] if g0[fr].holdable else NoneGridObject())))
    ensures('other-cells', lambda: forall_cells(state.grid, lambda c: implies(c != fr, lambda: same(state.grid[c], g0[c]))))
    ensures('shape', lambda: state.grid.shape == g0.shape)
    ensures('pose', lambda: state.agent.position == p0 and state.agent.orientation is o0)
    ensures('no-draw', lambda: draws(rng) == 0)


@contract(target=T + 'actuate_door', args=SAR, kwonly=['rng'], props=['C01', 'C03', 'C08', 'C09', 'C10'])
def actuate_door(state, action, rng):
    requires(in_grid(state.grid, state.agent.position))
    p0 = old(state.agent.position)
    o0 = old(state.agent.orientation)
    g0 = old(state.grid)
    hand = old(state.agent.grid_object)
    fr = padd(p0, unit(o0))
    act = action is Action.ACTUATE and in_grid(g0, fr) and isinstance(g0[fr], Door)
    opens = act and (g0[fr].state is Door.Status.CLOSED or (
        g0[fr].state is Door.Status.LOCKED and isinstance(hand, Key) and hand.color is g0[fr].color))
    ensures('total', lambda: returned())
    ensures('exact', lambda: forall_cells(state.grid, lambda c: same(
        state.grid[c], Door(Door.Status.OPEN, g0[fr].color) if (opens and c == fr) else g0[c])))
    ensures('shape', lambda: state.grid.shape == g0.shape)
    ensures('agent-untouched', lambda: state.agent.position == p0 and state.agent.orientation is o0
            and same(state.agent.grid_object, hand))
    ensures('no-draw', lambda: draws(rng) == 0)


@contract(target=T + 'actuate_box', args=SAR, kwonly=['rng'], props=['C01', 'C03', 'C08', 'C09', 'C10'])
def actuate_box(state, action, rng):
    requires(in_grid(state.grid, state.agent.position))
    p0 = old(state.agent.position)
    o0 = old(state.agent.orientation)
    g0 = old(state.grid)
    hand = old(state.agent.grid_object)
    fr = padd(p0, unit(o0))
    act = action is Action.ACTUATE and in_grid(g0, fr) and isinstance(g0[fr], Box)
    ensures('total', lambda: returned())
    ensures('exact', lambda: forall_cells(state.grid, lambda c: same(
        state.grid[c], g0[fr].content if (act and c == fr) else g0[c])))
    ensures('shape', lambda: state.grid.shape == g0.shape)
    ensures('agent-untouched', lambda: state.agent.position == p0 and state.agent.orientation is o0
            and same(state.agent.grid_object, hand))
    ensures('no-draw', lambda: draws(rng) == 0)


@contract(target=T + 'teleport', args=SAR, kwonly=['rng'], props=['C01', 'C03', 'C08', 'C09', 'C10', 'C11'])
def teleport(state, action, rng):
    requires(in_grid(state.grid, state.agent.position))
    p0 = old(state.agent.position)
    o0 = old(state.agent.orientation)
    g0 = old(state.grid)
    hand = old(state.agent.grid_object)
    on_pod = isinstance(g0[p0], Telepod)
    def partner(q):
        return q != p0 and isinstance(g0[q], Telepod) and g0[q].color is g0[p0].color
    has_partner = on_pod and exists_cells(g0, partner)
    ensures('total', lambda: returned())
    ensures('to-partner', lambda: implies(has_partner, lambda: in_grid(g0, state.agent.position)
                                          and partner(state.agent.position)))
    ensures('else-stay', lambda: implies(not has_partner, lambda: state.agent.position == p0))
    ensures('frame', lambda: state.agent.orientation is o0 and same(state.grid, g0)
            and same(state.agent.grid_object, hand))
    ensures('draws-only-on-pod', lambda: draws(rng) == (1 if has_partner else 0))
