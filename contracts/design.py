"""Contracts and loop invariants for gym_gridverse/design.py (C13)."""
from pyvc_rt import *
from contracts.spec import *
from gym_gridverse.geometry import Area, Position

DS = 'gym_gridverse.design:'


def on_border(area, c):
    return area_has(area, c) and (c.y == area.ymin or c.y == area.ymax or c.x == area.xmin or c.x == area.xmax)


def area_in_grid(grid, area):
    return 0 <= area.ymin and area.ymax < grid.shape.height and 0 <= area.xmin and area.xmax < grid.shape.width


# for pos in positions: grid[pos] = factory()      (order-oblivious: every cell is written at most once)
@loop_invariant(target=DS + 'draw_area', loop=0, kind='foreach', modifies=['grid'])
def draw_area_inv(done, pre, grid, factory):
    return grid.shape == pre.grid.shape and forall_cells(grid, lambda c: same(
        grid[c], factory() if done(c) else pre.grid[c]))


@loop_invariant(target=DS + 'draw_cartesian_product', loop=0, kind='foreach', modifies=['grid'])
def draw_cartesian_product_inv(done, pre, grid, factory):
    return grid.shape == pre.grid.shape and forall_cells(grid, lambda c: same(
        grid[c], factory() if done(c) else pre.grid[c]))


@contract(target=DS + 'draw_area', args={'grid': 'Grid', 'area': 'Area', 'factory': 'Class0', 'fill': 'bool'},
          kwonly=['fill'], props=['C13'])
def draw_area(grid, area, factory, fill):
    requires(area_in_grid(grid, area))
    g0 = old(grid)
    ensures('total', lambda: returned())
    ensures('exact', lambda: grid.shape == g0.shape and forall_cells(grid, lambda c: same(
        grid[c], factory() if (area_has(area, c) if fill else on_border(area, c)) else g0[c])))


@contract(target=DS + 'draw_wall_boundary', args={'grid': 'Grid'}, props=['C13'])
def draw_wall_boundary(grid):
    from gym_gridverse.grid_object import Wall
    g0 = old(grid)
    ensures('total', lambda: returned())
    ensures('unbroken-wall-boundary', lambda: grid.shape == g0.shape and forall_cells(grid, lambda c: same(
        grid[c], Wall() if on_border(grid.area, c) else g0[c])))


@contract(target=DS + 'draw_line_horizontal', args={'grid': 'Grid', 'y': 'int', 'x0': 'int', 'x1': 'int', 'factory': 'Class0'},
          call=lambda grid, y, x0, x1, factory: (grid, y, range(x0, x1), factory), props=['C13'])
def draw_line_horizontal(grid, y, x0, x1, factory):
    requires(0 <= y and y < grid.shape.height and 0 <= x0 and x1 <= grid.shape.width)
    g0 = old(grid)
    ensures('total', lambda: returned())
    ensures('exact', lambda: grid.shape == g0.shape and forall_cells(grid, lambda c: same(
        grid[c], factory() if (c.y == y and x0 <= c.x and c.x < x1) else g0[c])))


@contract(target=DS + 'draw_line_vertical', args={'grid': 'Grid', 'y0': 'int', 'y1': 'int', 'x': 'int', 'factory': 'Class0'},
          call=lambda grid, y0, y1, x, factory: (grid, range(y0, y1), x, factory), props=['C13'])
def draw_line_vertical(grid, y0, y1, x, factory):
    requires(0 <= x and x < grid.shape.width and 0 <= y0 and y1 <= grid.shape.height)
    g0 = old(grid)
    ensures('total', lambda: returned())
    ensures('exact', lambda: grid.shape == g0.shape and forall_cells(grid, lambda c: same(
        grid[c], factory() if (c.x == x and y0 <= c.y and c.y < y1) else g0[c])))
    ensures('returns-the-line', lambda: len(result()) == (y1 - y0 if y1 > y0 else 0) and forall_int(
        0, len(result()), lambda i: result()[i] == Position(y0 + i, x)))
