"""Contracts for the array level of the representations (C15 C16): shapes of any size.
The per-object encoders themselves are decided by exhaustive enumeration (pyvc/bounded.py)."""
from pyvc_rt import *
from contracts.spec import *

SR = 'gym_gridverse.representations.state_representations:'
OR = 'gym_gridverse.representations.observation_representations:'
ENC = ('object', {'convert': 'ObjEncoder'})


def agent_pose_contract(self, state):
    h = state.grid.shape.height
    w = state.grid.shape.width
    requires(h >= 2 and w >= 2 and in_grid(state.grid, state.agent.position))     # spaces of at least 2x2
    s0 = old(state)
    y = state.agent.position.y
    x = state.agent.position.x
    ensures('total', lambda: returned())
    ensures('normalised-pose', lambda: len(result()) == 6
            and result()[0] * (h - 1) == 2 * y - h + 1 and result()[1] * (w - 1) == 2 * x - w + 1)
    ensures('inside-the-declared-bounds', lambda: -1 <= result()[0] and result()[0] <= 1
            and -1 <= result()[1] and result()[1] <= 1
            and all(0 <= result()[k] and result()[k] <= 1 for k in [2, 3, 4, 5]))
    ensures('orientation-one-hot', lambda: all(
        result()[2 + k] == (1 if state.agent.orientation.value == k else 0) for k in [0, 1, 2, 3]))
    ensures('pure', lambda: same(state, s0))


@contract(target=SR + 'AgentStateRepresentation.convert',
          args={'self': ('new', SR + 'AgentStateRepresentation', ['Token']), 'state': 'State'},
          props=['C15', 'C16'])
def agent_state_convert(self, state):
    agent_pose_contract(self, state)


def marker_contract(self, x):
    requires(in_grid(x.grid, x.agent.position))
    x0 = old(x)
    h = x.grid.shape.height
    w = x.grid.shape.width
    ensures('total', lambda: returned())
    ensures('marker-exactly-at-the-agent-cell', lambda: (result().shape[0] == h and result().shape[1] == w)
            and forall_cells(x.grid, lambda c: result()[c.y, c.x] == (1 if c == x.agent.position else 0)))
    ensures('pure', lambda: same(x, x0))


@contract(target=SR + 'AgentIDGridStateRepresentation.convert',
          args={'self': ('new', SR + 'AgentIDGridStateRepresentation', ['Token']), 'state': 'State'},
          props=['C15', 'C16'])
def agent_id_grid_state_convert(self, state):
    marker_contract(self, state)


@contract(target=OR + 'AgentIDGridObservationRepresentation.convert',
          args={'self': ('new', OR + 'AgentIDGridObservationRepresentation', ['Token']),
                'observation': 'Observation'}, props=['C15', 'C16'])
def agent_id_grid_observation_convert(self, observation):
    marker_contract(self, observation)


def grid_contract(self, x):
    x0 = old(x)
    enc = self.grid_object_representation.convert
    h = x.grid.shape.height
    w = x.grid.shape.width
    ensures('total', lambda: returned())
    ensures('positional-same-encoder-at-every-cell', lambda: len(result()) == h and forall_cells(
        x.grid, lambda c: len(result()[c.y]) == w and vec_eq(result()[c.y][c.x], enc(x0.grid[c]))))
    ensures('pure', lambda: same(x, x0))


@contract(target=SR + 'GridStateRepresentation.convert',
          args={'self': ('new', SR + 'GridStateRepresentation', ['Token', ENC]),
                'state': 'State'}, props=['C15', 'C16'])
def grid_state_convert(self, state):
    grid_contract(self, state)


@contract(target=OR + 'GridObservationRepresentation.convert',
          args={'self': ('new', OR + 'GridObservationRepresentation', ['Token', ENC]),
                'observation': 'Observation'}, props=['C15', 'C16'])
def grid_observation_convert(self, observation):
    grid_contract(self, observation)


def item_contract(self, x):
    x0 = old(x)
    enc = self.grid_object_representation.convert
    ensures('item-is-the-encoding-of-the-held-object', lambda: returned() and vec_eq(result(), enc(x0.agent.grid_object)))
    ensures('pure', lambda: same(x, x0))


@contract(target=SR + 'ItemStateRepresentation.convert',
          args={'self': ('new', SR + 'ItemStateRepresentation', ['Token', ENC]),
                'state': 'State'}, props=['C15', 'C16'])
def item_state_convert(self, state):
    item_contract(self, state)


@contract(target=OR + 'ItemObservationRepresentation.convert',
          args={'self': ('new', OR + 'ItemObservationRepresentation', ['Token', ENC]),
                'observation': 'Observation'}, props=['C15', 'C16'])
def item_observation_convert(self, observation):
    item_contract(self, observation)
