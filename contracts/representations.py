"""Contracts for the array level of the representations (C15 C16): shapes of any size.
The per-object encoders themselves are decided by exhaustive enumeration (pyvc/bounded.py)."""
from pyvc_rt import *
from contracts.spec import *

SR = 'gym_gridverse.representations.state_representations:'
OR = 'gym_gridverse.representations.observation_representations:'
ENC = ('object', {'convert': 'ObjEncoder'})


def agent_pose_contract(self, state):
    h = state.grid.shape.height
    w = state.grid.shape.width
    requires(h >= 2 and w >= 2 and in_grid(state.grid, state.agent.position))     # spaces of at least 2x2
    s0 = old(state)
    y = state.agent.position.y
    x = state.agent.position.x
    ensures('total', lambda: returned())
    ensures('normalised-pose', lambda: len(result()) == 6
            and result()[0] * (h - 1) == 2 * y - h + 1 and result()[1] * (w - 1) == 2 * x - w + 1)
    ensures('inside-the-declared-bounds', lambda: -1 <= result()[0] and result()[0] <= 1
            and -1 <= result()[1] and result()[1] <= 1
            and all(0 <= result()[k] and result()[k] <= 1 for k in [2, 3, 4, 5]))
    ensures('orientation-one-hot', lambda: all(
        result()[2 + k] == (1 if state.agent.orientation.value == k else 0) for k in [0, 1, 2, 3]))
    ensures('pure', lambda: same(state, s0))


@contract(target=SR + 'AgentStateRepresentation.convert',
          args={'self': ('new', SR + 'AgentStateRepresentation', ['Token']), 'state': 'State'},
          props=['C15', 'C16'])
def agent_state_convert(self, state):
    agent_pose_contract(self, state)


def marker_contract(self, x):
    requires(in_grid(x.grid, x.agent.position))
    x0 = old(x)
    h = x.grid.shape.height
    w = x.grid.shape.width
    ensures('total', lambda: returned())
    ensures('marker-exactly-at-the-agent-cell', lambda: (result().shape[0] == h and result().shape[1] == w)
            and forall_cells(x.grid, lambda c: result()[c.y, c.x] == (1 if c == x.agent.position else 0)))
    ensures('pure', lambda: same(x, x0))


@contract(target=SR + 'AgentIDGridStateRepresentation.convert',
          args={'self': ('new', SR + 'AgentIDGridStateRepresentation', ['Token']), 'state': 'State'},
          props=['C15', 'C16'])
def agent_id_grid_state_convert(self, state):
    marker_contract(self, state)


@contract(target=OR + 'AgentIDGridObservationRepresentation.convert',
          args={'self': ('new', OR + 'AgentIDGridObservationRepresentation', ['Token']),
                'observation': 'Observation'}, props=['C15', 'C16'])
def agent_id_grid_observation_convert(self, observation):
    marker_contract(self, observation)


def grid_contract(self, x):
    x0 = old(x)
    enc = self.grid_object_representation.convert
    h = x.grid.shape.height
    w = x.grid.shape.width
    ensures('total', lambda: returned())
    ensures('positional-same-encoder-at-every-cell', lambda: len(result()) == h and forall_cells(
        x.grid, lambda c: len(result()[c.y]) == w and vec_eq(result()[c.y][c.x], enc(x0.grid[c]))))
    ensures('pure', lambda: same(x, x0))


@contract(target=SR + 'GridStateRepresentation.convert',
          args={'self': ('new', SR + 'GridStateRepresentation', ['Token', ENC]),
                'state': 'State'}, props=['C15', 'C16'])
def grid_state_convert(self, state):
    grid_contract(self, state)


@contract(target=OR + 'GridObservationRepresentation.convert',
          args={'self': ('new', OR + 'GridObservationRepresentation', ['Token', ENC]),
                'observation': 'Observation'}, props=['C15', 'C16'])
def grid_observation_convert(self, observation):
    grid_contract(self, observation)


def item_contract(self, x):
    x0 = old(x)
    enc = self.grid_object_representation.convert
    ensures('item-is-the-encoding-of-the-held-object', lambda: returned() and vec_eq(result(), enc(x0.agent.grid_object)))
    ensures('pure', lambda: same(x, x0))


@contract(target=SR + 'ItemStateRepresentation.convert',
          args={'self': ('new', SR + 'ItemStateRepresentation', ['Token', ENC]),
                'state': 'State'}, props=['C15', 'C16'])
def item_state_convert(self, state):
    item_contract(self, state)


@contract(target=OR + 'ItemObservationRepresentation.convert',
          args={'self': ('new', OR + 'ItemObservationRepresentation', ['Token', ENC]),
                'observation': 'Observation'}, props=['C15', 'C16'])
def item_observation_convert(self, observation):
    item_contract(self, observation)


# ------------------------------------------------------------------------- composition by key
DBG = 'gym_gridverse.debugging:gv_debug'
PART = ('object', {'convert': ('fn', 'Token'), 'space': 'Token'})
SPACE_OBJ = ('object', {'contains': ('fn', 'bool')})
SPACE_OBJ_S = ('object', {'contains': ('fn', 'bool'), 'can_be_represented': ('const', True)})
DICT_S = ('new', SR + 'DictStateRepresentation', [SPACE_OBJ_S, ('dict', {'grid': PART, 'agent': PART})])
DICT_O = ('new', OR + 'DictObservationRepresentation', [SPACE_OBJ, ('dict', {'grid': PART, 'agent': PART})])


def dict_convert_contract(self, x, space):
    reps = self.representations
    ensures('only-the-debug-membership-check-raises', lambda: implies(not returned(), lambda: (
        raised(ValueError) and ghost_calls(DBG) >= 1 and ghost_result(DBG, 0)
        and ghost_calls(space.contains) == 1 and not ghost_result(space.contains, 0))))
    ensures('total-without-debug', lambda: implies(ghost_calls(DBG) >= 1 and not ghost_result(DBG, 0), lambda: returned()))
    ensures('one-entry-per-part-each-converting-the-same-value', lambda: implies(returned(), lambda: (
        len(result()) == 2 and all(
            ghost_calls(reps[k].convert) == 1 and ghost_arg(reps[k].convert, 0, 0) is x
            and result()[k] is ghost_result(reps[k].convert, 0) for k in ['grid', 'agent']))))


@contract(target=SR + 'DictStateRepresentation.convert', args={'self': DICT_S, 'state': 'State'}, stubs={DBG: 'bool'},
          props=['C15', 'C16'])
def dict_state_convert(self, state):
    dict_convert_contract(self, state, self.state_space)


@contract(target=OR + 'DictObservationRepresentation.convert', args={'self': DICT_O, 'observation': 'Observation'},
          stubs={DBG: 'bool'}, props=['C15', 'C16'])
def dict_observation_convert(self, observation):
    dict_convert_contract(self, observation, self.observation_space)


@contract(target=SR + 'DictStateRepresentation.space', args={'self': DICT_S}, props=['C15'])
def dict_state_space(self):
    ensures('one-space-per-part', lambda: returned() and len(result()) == 2 and all(
        result()[k] is self.representations[k].space for k in ['grid', 'agent']))


@contract(target=OR + 'DictObservationRepresentation.space', args={'self': DICT_O}, props=['C15'])
def dict_observation_space(self):
    ensures('one-space-per-part', lambda: returned() and len(result()) == 2 and all(
        result()[k] is self.representations[k].space for k in ['grid', 'agent']))


@contract(target=SR + 'DictStateRepresentation', args={'state_space': ('object', {'can_be_represented': 'bool'})},
          call=lambda state_space: (state_space, {}), props=['C15'])
def state_representation_needs_a_representable_space(state_space):
    ensures('rejects-spaces-with-unrepresentable-objects', lambda: returned() == state_space.can_be_represented
            and implies(not returned(), lambda: raised(ValueError)))


# ------------------------------------------------------------------------- factories by name
from contracts.spaces import OSPACE, SSPACE
NAMES = ('oneof', ['default', 'no-overlap', 'compact', 'compact ', ''])


def factory_contract(name, space, mod, dict_cls, grid_cls, item_cls, marker_cls, encoders, with_agent):
    known = name == 'default' or name == 'no-overlap' or name == 'compact'
    ensures('known-names-or-valueerror', lambda: implies(not known, lambda: raised(ValueError))
            and implies(not returned(), lambda: raised(ValueError)))
    def shape():
        reps = result().representations
        enc = reps['grid'].grid_object_representation
        return (type(result()) is dict_cls and len(reps) == (4 if with_agent else 3)
                and type(reps['grid']) is grid_cls and type(reps['item']) is item_cls
                and type(reps['agent_id_grid']) is marker_cls
                # grid cells and the held item are encoded by the same per-object encoder, the one the name asks for
                and reps['item'].grid_object_representation is enc
                and type(enc) is (encoders[0] if name == 'default' else encoders[1] if name == 'no-overlap' else encoders[2]))
    ensures('parts-and-the-named-encoder', lambda: implies(returned(), shape))


# the per-object encoders' constructors build numpy index maps (decided by the exhaustive enumeration in
# pyvc/bounded.py); here they are stubs: the factories are about which parts are assembled
def ctor_stubs(prefix, kind):
    return {prefix + c + 'GridObject' + kind + 'Representation.__init__': 'None' for c in ['Default', 'NoOverlap', 'Compact']}


@contract(target=SR + 'make_state_representation', args={'name': NAMES, 'state_space': SSPACE}, stubs=ctor_stubs(SR, 'State'),
          props=['C15', 'C16', 'C20'])
def make_state_representation(name, state_space):
    import gym_gridverse.representations.state_representations as m
    factory_contract(name, state_space, m, m.DictStateRepresentation, m.GridStateRepresentation, m.ItemStateRepresentation,
                     m.AgentIDGridStateRepresentation,
                     [m.DefaultGridObjectStateRepresentation, m.NoOverlapGridObjectStateRepresentation,
                      m.CompactGridObjectStateRepresentation], True)
    ensures('agent-pose-part', lambda: implies(returned(), lambda: type(result().representations['agent'])
                                               is m.AgentStateRepresentation))


@contract(target=OR + 'make_observation_representation', args={'name': NAMES, 'observation_space': OSPACE},
          stubs=ctor_stubs(OR, 'Observation'), props=['C15', 'C16', 'C20'])
def make_observation_representation(name, observation_space):
    import gym_gridverse.representations.observation_representations as m
    factory_contract(name, observation_space, m, m.DictObservationRepresentation, m.GridObservationRepresentation,
                     m.ItemObservationRepresentation, m.AgentIDGridObservationRepresentation,
                     [m.DefaultGridObjectObservationRepresentation, m.NoOverlapGridObjectObservationRepresentation,
                      m.CompactGridObjectObservationRepresentation], False)


# ------------------------------------------------------------------------- per-object encoders (default, no-overlap)
# any list of classes / colours (duplicates allowed) stands for every non-empty subset
RP = 'gym_gridverse.representations.representation:'
TYPES = ('list', 'Class', 11)
COLS = ('list', 'Color', 5)


@contract(target=RP + 'default_grid_object_representation_convert', args={'grid_object': 'Obj'}, props=['C15', 'C16'])
def default_convert(grid_object):
    o0 = old(grid_object)
    ensures('the-index-triple', lambda: returned() and len(result()) == 3 and result()[0] == grid_object.type_index()
            and result()[1] == grid_object.state_index and result()[2] == grid_object.color.value)
    ensures('pure', lambda: same(grid_object, o0))


def member(types, colors, o):
    return any(type(o) is t for t in types) and any(o.color is c for c in colors)


@contract(target=RP + 'no_overlap_grid_object_representation_convert',
          args={'grid_object_types': TYPES, 'grid_object_colors': COLS, 'grid_object': 'Obj'}, props=['C15', 'C16'])
def no_overlap_convert(grid_object_types, grid_object_colors, grid_object):
    requires(member(grid_object_types, grid_object_colors, grid_object))
    T = max(t.type_index() for t in grid_object_types)
    S = max(t.num_states() for t in grid_object_types)
    ensures('total', lambda: returned() and len(result()) == 3)
    ensures('type-channel-is-the-type-index', lambda: result()[0] == grid_object.type_index())
    ensures('channels-use-disjoint-ranges-fixed-by-the-space', lambda: (
        0 <= result()[0] and result()[0] <= T and T < result()[1] and result()[1] <= T + S and T + S < result()[2]))
    ensures('offsets-keep-the-indices', lambda: result()[1] - (T + 1) == grid_object.state_index
            and result()[2] - (T + S + 2) == grid_object.color.value)


MKCAT = 'gym_gridverse.representations.spaces:Space.make_categorical_space'


# Space.make_categorical_space (zero lower bounds, numpy dtype checks) is a stub here: what is proved is that the
# upper-bound vector handed to it dominates the encoding of every member object, and that encodings are non-negative
@contract(target=RP + 'no_overlap_grid_object_representation_space',
          args={'grid_object_types': TYPES, 'grid_object_colors': COLS, 'o': 'Obj'}, ghost=['o'], stubs={MKCAT: 'Token'},
          props=['C15'])
def no_overlap_space(grid_object_types, grid_object_colors, o):
    from gym_gridverse.representations.representation import no_overlap_grid_object_representation_convert
    requires(member(grid_object_types, grid_object_colors, o))
    enc = no_overlap_grid_object_representation_convert(grid_object_types, grid_object_colors, o)
    ensures('total', lambda: returned() and ghost_calls(MKCAT) == 1 and result() is ghost_result(MKCAT, 0))
    ensures('every-member-encoding-lies-inside-the-declared-bounds', lambda: all(
        0 <= enc[k] and enc[k] <= ghost_arg(MKCAT, 0, 0)[k] for k in [0, 1, 2]))


@contract(target=RP + 'default_grid_object_representation_space',
          args={'grid_object_types': TYPES, 'grid_object_colors': COLS, 'o': 'Obj'}, ghost=['o'], stubs={MKCAT: 'Token'},
          props=['C15'])
def default_space(grid_object_types, grid_object_colors, o):
    from gym_gridverse.representations.representation import default_grid_object_representation_convert
    requires(member(grid_object_types, grid_object_colors, o))
    enc = default_grid_object_representation_convert(o)
    ensures('total', lambda: returned() and ghost_calls(MKCAT) == 1 and result() is ghost_result(MKCAT, 0))
    ensures('every-member-encoding-lies-inside-the-declared-bounds', lambda: all(
        0 <= enc[k] and enc[k] <= ghost_arg(MKCAT, 0, 0)[k] for k in [0, 1, 2]))


@lemma(args={'s': 'State', 'action': 'Action'}, props=['C03', 'C15', 'C16'])
def encodings_follow_in_place_changes(s, action):
    """a door opened in place by a step is encoded (and compares) like a door built open: derived indices follow the
    attribute they are derived from"""
    from gym_gridverse.envs.transition_functions import actuate_door, transition_with_copy
    from gym_gridverse.envs.utils import get_next_position
    from gym_gridverse.grid_object import Door
    from gym_gridverse.representations.representation import default_grid_object_representation_convert
    if in_grid(s.grid, s.agent.position):
        n = transition_with_copy(actuate_door, s, action)
        p = front(n)
        if in_grid(n.grid, p):
            o = n.grid[p]
            if isinstance(o, Door):
                fresh = Door(o.state, o.color)
                check('status-index-follows-the-status', lambda: o.state_index == o.state.value)
                check('equal-to-a-door-built-in-that-status', lambda: o == fresh and hash(o) == hash(fresh))
                check('encoded-like-a-door-built-in-that-status', lambda: vec_eq(
                    default_grid_object_representation_convert(o), default_grid_object_representation_convert(fresh)))


@lemma(args={'status': 'DoorStatus', 'status2': 'DoorStatus', 'color': 'Color'}, props=['C03', 'C10', 'C15', 'C16'])
def door_indices_follow_its_status(status, status2, color):
    """the dynamics change a door's status by assignment (`door.state = ...`): everything derived from the status
    must follow it, as for a door built in the new status"""
    from gym_gridverse.grid_object import Door
    from gym_gridverse.representations.representation import default_grid_object_representation_convert
    d = Door(status, color)
    d.state = status2
    fresh = Door(status2, color)
    check('status-index-follows-the-status', lambda: d.state_index == status2.value and d.state is status2)
    check('flags-follow-the-status', lambda: d.blocks_movement == fresh.blocks_movement
          and d.blocks_vision == fresh.blocks_vision and d.is_open == fresh.is_open and d.is_locked == fresh.is_locked)
    check('equal-to-a-door-built-in-that-status', lambda: d == fresh and hash(d) == hash(fresh))
    check('encoded-like-a-door-built-in-that-status', lambda: vec_eq(
        default_grid_object_representation_convert(d), default_grid_object_representation_convert(fresh)))
