"""Spec functions (independent of the code; written from the property statements and
the documented conventions: y extends downward, FORWARD is north/up).

Dual-mode: interpreted symbolically by pyvc and executed natively by the replay /
cross-check harness.  Conditional *expressions* are used on purpose (the symbolic
interpreter merges them into if-then-else terms instead of forking paths)."""
from gym_gridverse.action import Action
from gym_gridverse.geometry import Area, Orientation, Position, Shape

F = Orientation.FORWARD
R = Orientation.RIGHT
B = Orientation.BACKWARD
L = Orientation.LEFT


def z4(o):
    """quarter turns clockwise"""
    return 0 if o is F else (1 if o is R else (2 if o is B else 3))


def z4inv(k):
    return F if k == 0 else (R if k == 1 else (B if k == 2 else L))


def turn(o1, o2):
    """composition of quarter turns"""
    return z4inv((z4(o1) + z4(o2)) % 4)


def inv(o):
    return z4inv((4 - z4(o)) % 4)


def rot(o, p):
    """rotation of a displacement p by the quarter turn o"""
    return (
        Position(p.y, p.x)
        if o is F
        else (
            Position(p.x, -p.y)
            if o is R
            else (Position(-p.y, -p.x) if o is B else Position(-p.x, p.y))
        )
    )


def unit(o):
    """unit step in direction o: FORWARD is up (-y), RIGHT is +x"""
    return (
        Position(-1, 0)
        if o is F
        else (Position(0, 1) if o is R else (Position(1, 0) if o is B else Position(0, -1)))
    )


def is_move(a):
    return (
        a is Action.MOVE_FORWARD
        or a is Action.MOVE_BACKWARD
        or a is Action.MOVE_LEFT
        or a is Action.MOVE_RIGHT
    )


def rel(a):
    """direction of a move action relative to the heading"""
    return (
        F
        if a is Action.MOVE_FORWARD
        else (R if a is Action.MOVE_RIGHT else (B if a is Action.MOVE_BACKWARD else L))
    )


def padd(p, q):
    return Position(p.y + q.y, p.x + q.x)


def in_grid(grid, p):
    return 0 <= p.y and p.y < grid.shape.height and 0 <= p.x and p.x < grid.shape.width


def front(state):
    return padd(state.agent.position, unit(state.agent.orientation))


def move_target(position, orientation, action):
    return padd(position, unit(turn(orientation, rel(action)))) if is_move(action) else position


def manhattan(p, q):
    return abs(p.y - q.y) + abs(p.x - q.x)


def area_has(area, p):
    return area.ys[0] <= p.y and p.y <= area.ys[1] and area.xs[0] <= p.x and p.x <= area.xs[1]
