"""Contracts for gym_gridverse/rng.py: every sampling helper draws from the generator it is given and from
nothing else (C02), and returns members of its population (used by the resets, C13)."""
from pyvc_rt import *
from contracts.spec import *

RM = 'gym_gridverse.rng:'


def one_draw(rng):
    return draws(rng) <= 1 and implies(returned(), lambda: draws(rng) == 1)


@contract(target=RM + 'choice', args={'rng': 'Rng', 'data': 'IntSeq'}, props=['C02', 'C13'])
def choice(rng, data):
    n = len(data)
    ensures('raises-only-on-empty-population', lambda: returned() == (n > 0)
            and implies(not returned(), lambda: raised(ValueError)))
    ensures('a-member-of-the-population', lambda: implies(returned(), lambda: exists_int(0, n, lambda i: result() == data[i])))
    ensures('one-draw-from-the-given-generator', lambda: one_draw(rng))


@contract(target=RM + 'choices', args={'rng': 'Rng', 'data': 'IntSeq', 'size': 'nat', 'replace': 'bool'},
          kwonly=['size', 'replace'], props=['C02', 'C13'])
def choices(rng, data, size, replace):
    n = len(data)
    feasible = (n > 0 or size == 0) and (replace or size <= n)
    ensures('raises-only-when-the-sample-cannot-be-taken', lambda: returned() == feasible
            and implies(not returned(), lambda: raised(ValueError)))
    ensures('members-of-the-population', lambda: implies(returned(), lambda: len(result()) == size and forall_int(
        0, size, lambda k: exists_int(0, n, lambda i: result()[k] == data[i]))))
    ensures('one-draw-from-the-given-generator', lambda: one_draw(rng))


@contract(target=RM + 'shuffle', args={'rng': 'Rng', 'data': 'IntSeq'}, props=['C02', 'C13'])
def shuffle(rng, data):
    n = len(data)
    d0 = old(list(data))
    ensures('total', lambda: returned())
    ensures('same-length', lambda: len(result()) == n)
    ensures('every-result-entry-comes-from-the-data', lambda: forall_int(
        0, n, lambda k: exists_int(0, n, lambda i: result()[k] == data[i])))
    ensures('every-data-entry-occurs-in-the-result', lambda: forall_int(
        0, n, lambda i: exists_int(0, n, lambda k: result()[k] == data[i])))
    ensures('input-sequence-untouched', lambda: len(data) == len(d0) and forall_int(0, n, lambda i: data[i] == d0[i]))
    ensures('one-draw-from-the-given-generator', lambda: one_draw(rng))


@contract(target=RM + 'get_gv_rng_if_none', args={'rng': ('opt', 'Rng')}, props=['C02'])
def get_gv_rng_if_none(rng):
    ensures('total', lambda: returned())
    ensures('a-given-generator-is-used-as-is', lambda: implies(rng is not None, lambda: result() is rng))
    ensures('no-draw', lambda: implies(rng is not None, lambda: draws(rng) == 0))
