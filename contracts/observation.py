"""Contracts for gym_gridverse/envs/observation_functions.py (C01 C03 C05 C06 C07)."""
from pyvc_rt import *
from contracts.spec import *
from gym_gridverse.geometry import Area, Orientation, Position, Shape
from gym_gridverse.grid_object import Hidden

OF = 'gym_gridverse.envs.observation_functions:'


@loop_invariant(target=OF + 'from_visibility', loop=0, kind='foreach', modifies=['observation_grid'])
def from_visibility_mask(done, pre, observation_grid, visibility):
    return observation_grid.shape == pre.observation_grid.shape and forall_cells(
        observation_grid, lambda c: same(
            observation_grid[c],
            Hidden() if (done(c) and not visibility[c.y, c.x]) else pre.observation_grid[c]))


def view_to_world(state, area, c):
    """world cell shown at view cell c: the view area placed at the agent's pose"""
    return padd(state.agent.position, rot(state.agent.orientation, Position(area.ymin + c.y, area.xmin + c.x)))


@contract(target=OF + 'from_visibility',
          args={'state': 'State', 'area': 'Area', 'visibility_function': 'VisFn', 'rng': 'Rng'},
          kwonly=['area', 'visibility_function', 'rng'], props=['C02', 'C01', 'C03', 'C05', 'C06', 'C07'])
def from_visibility(state, area, visibility_function, rng):
    s0 = old(state)
    shape_ok = ghost_calls(visibility_function) == 1 and (
        ghost_result(visibility_function, 0).shape == (area.height, area.width))
    ensures('calls-visibility-once', lambda: ghost_calls(visibility_function) == 1)
    ensures('raises-only-on-bad-shape', lambda: returned() == shape_ok
            and implies(not returned(), lambda: raised(ValueError)))
    ensures('shape', lambda: implies(returned(), lambda: result().grid.shape == Shape(area.height, area.width)))
    ensures('sound', lambda: implies(returned(), lambda: forall_cells(result().grid, lambda c: same(
        result().grid[c],
        s0.grid[view_to_world(s0, area, c)]
        if (ghost_result(visibility_function, 0)[c.y, c.x] and in_grid(s0.grid, view_to_world(s0, area, c)))
        else Hidden()))))
    ensures('agent', lambda: implies(returned(), lambda: result().agent.position == Position(-area.ymin, -area.xmin)
            and result().agent.orientation is F and same(result().agent.grid_object, s0.agent.grid_object)))
    ensures('state-unchanged', lambda: same(state, s0))
    ensures('no-own-draw', lambda: draws(rng) == 0)


def premask(state, area):
    """the agent-frame slice handed to the visibility function (real operators)"""
    return state.grid.subgrid(state.agent.transform * area) * state.agent.orientation


@contract(target=OF + 'from_visibility',
          args={'state': 'State', 'area': 'Area', 'visibility_function': 'VisFn', 'rng': 'Rng'},
          kwonly=['area', 'visibility_function', 'rng'], props=['C05', 'C06', 'C07'])
def from_visibility_factored(state, area, visibility_function, rng):
    """the observation is mask(premask(state), V(premask(state), anchor)): nothing else of the
    state reaches the visibility function or the result"""
    s0 = old(state)
    pm = old(premask(state, area))
    ensures('visibility-sees-premask-only', lambda: ghost_calls(visibility_function) == 1
            and same(ghost_arg(visibility_function, 0, 0), pm)
            and ghost_arg(visibility_function, 0, 1) == Position(-area.ymin, -area.xmin))
    ensures('masked-premask', lambda: implies(returned(), lambda: forall_cells(result().grid, lambda c: same(
        result().grid[c], pm[c] if ghost_result(visibility_function, 0)[c.y, c.x] else Hidden()))))


@lemma(args={'g': 'Grid', 'p': 'Position', 'o': 'Orientation', 'r': 'Orientation', 'p2': 'Position',
             'o2': 'Orientation', 'area': 'Area', 'item': 'Obj'}, props=['C07'])
def egocentric(g, p, o, r, p2, o2, area, item):
    """world rotated by r: grid g*r; the agent stands on the cell that holds its old cell
    and its heading is rotated with the world.  Then the agent-frame slice is unchanged."""
    from gym_gridverse.agent import Agent
    from gym_gridverse.state import State
    h = g.shape.height
    w = g.shape.width
    g2 = g * r
    requires_lemma = in_grid(g2, p2) and grid_src_pos(r, p2, h, w) == p and rot(r, unit(o2)) == unit(o)
    s1 = State(g, Agent(p, o, item))
    s2 = State(g2, Agent(p2, o2, item))
    check('same-premask', lambda: implies(requires_lemma, lambda: same(premask(s1, area), premask(s2, area))))
    # the rotated pose always exists (explicit witness: the inverse of the affine cell map)
    c0 = grid_src_pos(r, Position(0, 0), h, w)
    q = rot(inv(r), Position(p.y - c0.y, p.x - c0.x))
    check('pose-exists', lambda: implies(in_grid(g, p), lambda: in_grid(g2, q) and grid_src_pos(r, q, h, w) == p))
    check('heading-is-unique', lambda: implies(requires_lemma, lambda: o2 is turn(inv(r), o)))


def grid_src_pos(o, c, h, w):
    return padd(rot(o, c), Position(0, 0) if o is F else (
        Position(0, w - 1) if o is R else (Position(h - 1, w - 1) if o is B else Position(h - 1, 0))))


@contract(target=OF + 'fully_transparent', args={'state': 'State', 'area': 'Area', 'rng': 'Rng'},
          kwonly=['area', 'rng'], props=['C02', 'C01', 'C03', 'C05', 'C07'])
def fully_transparent(state, area, rng):
    s0 = old(state)
    ensures('total', lambda: returned())
    ensures('shape', lambda: result().grid.shape == Shape(area.height, area.width))
    ensures('shows-every-in-grid-cell', lambda: forall_cells(result().grid, lambda c: same(
        result().grid[c],
        s0.grid[view_to_world(s0, area, c)] if in_grid(s0.grid, view_to_world(s0, area, c)) else Hidden())))
    ensures('agent', lambda: result().agent.position == Position(-area.ymin, -area.xmin)
            and result().agent.orientation is F and same(result().agent.grid_object, s0.agent.grid_object))
    ensures('state-unchanged', lambda: same(state, s0))
    ensures('no-draw', lambda: draws(rng) == 0)


def delegation(name):
    """the thin wrappers only look a visibility function up by name and delegate"""
    FV = OF + 'from_visibility'

    def body(state, area, rng):
        from gym_gridverse.envs.visibility_functions import visibility_function_registry
        ensures('delegates-once', lambda: ghost_calls(FV) == 1)
        ensures('same-arguments', lambda: ghost_arg(FV, 0, 0) is state and ghost_kwarg(FV, 0, 'area') is area
                and ghost_kwarg(FV, 0, 'rng') is rng
                and ghost_kwarg(FV, 0, 'visibility_function') is visibility_function_registry[name])
        ensures('returns-its-result', lambda: returned() and result() is ghost_result(FV, 0))
    return body


@contract(target=OF + 'fully_transparent', args={'state': 'State', 'area': 'Area', 'rng': 'Rng'},
          kwonly=['area', 'rng'], props=['C02', 'C05', 'C06', 'C07'], stubs=[OF + 'from_visibility'])
def fully_transparent_delegates(state, area, rng):
    delegation('fully_transparent')(state, area, rng)


@contract(target=OF + 'partially_occluded', args={'state': 'State', 'area': 'Area', 'rng': 'Rng'},
          kwonly=['area', 'rng'], props=['C02', 'C05', 'C06', 'C07'], stubs=[OF + 'from_visibility'])
def partially_occluded_delegates(state, area, rng):
    delegation('partially_occluded')(state, area, rng)


@contract(target=OF + 'raytracing', args={'state': 'State', 'area': 'Area', 'rng': 'Rng'},
          kwonly=['area', 'rng'], props=['C02', 'C05', 'C06', 'C07'], stubs=[OF + 'from_visibility'])
def raytracing_delegates(state, area, rng):
    delegation('raytracing')(state, area, rng)


@contract(target=OF + 'stochastic_raytracing', args={'state': 'State', 'area': 'Area', 'rng': 'Rng'},
          kwonly=['area', 'rng'], props=['C02', 'C05', 'C06'], stubs=[OF + 'from_visibility'])
def stochastic_raytracing_delegates(state, area, rng):
    delegation('stochastic_raytracing')(state, area, rng)


@contract(target=OF + 'from_visibility',
          args={'state': 'State', 'area': 'Area', 'visibility_function': 'VisFn', 'rng': 'Rng', 'declared': 'ObjPred'},
          kwonly=['area', 'visibility_function', 'rng'], ghost=['declared'], props=['C01'])
def observation_stays_in_its_space(state, area, visibility_function, rng, declared):
    """the observation of a state of the space lies in the observation space: cells are Hidden or declared
    objects, shape = view shape, agent on the anchor cell inside the view, held item unchanged"""
    requires(forall_cells(state.grid, lambda c: declared(state.grid[c])))
    requires(area.ymin <= 0 and 0 <= area.ymax and area.xmin <= 0 and 0 <= area.xmax)   # the view contains the agent
    hand = old(state.agent.grid_object)
    ensures('in-the-observation-space', lambda: implies(returned(), lambda: (
        result().grid.shape == Shape(area.height, area.width)
        and forall_cells(result().grid, lambda c: declared(result().grid[c]) or isinstance(result().grid[c], Hidden))
        and in_grid(result().grid, result().agent.position)
        and same(result().agent.grid_object, hand))))
