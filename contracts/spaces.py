"""Contracts for gym_gridverse/spaces.py (C01 C15 C20)."""
from pyvc_rt import *
from contracts.spec import *
from gym_gridverse.grid_object import Color, Hidden, NoneGridObject

SP = 'gym_gridverse.spaces:'
NT = 11   # object_types / colours are lists of symbolic entries (duplicates allowed): every non-empty
NC = 5    # subset of the 11 registered classes / 5 colours is covered
SSPACE = ('new', SP + 'StateSpace', ['Shape', ('list', 'Class', NT), ('list', 'Color', NC)])
OSPACE = ('new', SP + 'ObservationSpace', ['Shape', ('list', 'Class', NT), ('list', 'Color', NC)])
ASPACE = ('new', SP + 'ActionSpace', [('list', 'Action', 8)])


def declared_color(space, o):
    return o.color in space.colors


@contract(target=SP + 'StateSpace.contains', args={'self': SSPACE, 'state': 'State'}, props=['C01', 'C15'])
def state_space_contains(self, state):
    s0 = old(state)
    types = self.object_types
    hand = state.agent.grid_object
    conforms = (state.grid.shape == self.grid_shape
                and forall_cells(state.grid, lambda c: type(state.grid[c]) in types and declared_color(self, state.grid[c]))
                and in_grid(state.grid, state.agent.position)
                and (type(hand) in types or isinstance(hand, NoneGridObject))
                and declared_color(self, hand))
    ensures('total', lambda: returned())
    ensures('accepts-exactly-conforming-states', lambda: result() == conforms)
    ensures('pure', lambda: same(state, s0))


@contract(target=SP + 'ObservationSpace.contains', args={'self': OSPACE, 'observation': 'Observation'}, props=['C01', 'C15'])
def observation_space_contains(self, observation):
    requires(self.grid_shape.height >= 1 and self.grid_shape.width >= 1)
    o0 = old(observation)
    types = self.object_types
    hand = observation.agent.grid_object
    conforms = (observation.grid.shape == self.grid_shape
                and forall_cells(observation.grid, lambda c: (type(observation.grid[c]) in types or isinstance(
                    observation.grid[c], Hidden)) and declared_color(self, observation.grid[c]))
                and in_grid(observation.grid, observation.agent.position)
                and (type(hand) in types or isinstance(hand, NoneGridObject))
                and declared_color(self, hand))
    ensures('total', lambda: returned())
    ensures('accepts-exactly-conforming-observations', lambda: result() == conforms)
    ensures('pure', lambda: same(observation, o0))


@contract(target=SP + 'ObservationSpace.__init__', args={'self': ('object', {}), 'grid_shape': 'Shape',
                                                           'object_types': ('list', 'Class', 3), 'colors': ('list', 'Color', 2)},
          props=['C01', 'C15'], native=False)
def observation_space_init(self, grid_shape, object_types, colors):
    requires(grid_shape.height >= 1 and grid_shape.width >= 1)
    ensures('odd-width-only', lambda: returned() == (grid_shape.width % 2 == 1)
            and implies(not returned(), lambda: raised(ValueError)))
    ensures('view-area-and-anchor', lambda: implies(returned(), lambda: (
        self.area.height == grid_shape.height and self.area.width == grid_shape.width
        and self.area.ymax == 0 and self.area.xmin == -self.area.xmax
        and self.agent_position.y == grid_shape.height - 1 and self.agent_position.x == grid_shape.width // 2
        and self.agent_position.y == -self.area.ymin and self.agent_position.x == -self.area.xmin)))


@contract(target=SP + 'ActionSpace.contains', args={'self': ASPACE, 'action': 'Action'}, props=['C01', 'C20'])
def action_space_contains(self, action):
    ensures('total', lambda: returned())
    ensures('membership', lambda: result() == exists_int(0, 8, lambda i: self.actions[i] is action))


@contract(target=SP + 'ActionSpace.int_to_action', args={'self': ASPACE, 'action': 'int'}, props=['C20'])
def action_space_int_to_action(self, action):
    ensures('ith-action', lambda: implies(0 <= action and action < 8, lambda: returned() and result() is self.actions[action]))
    ensures('index-error-beyond', lambda: implies(action >= 8 or action < -8, lambda: raised(IndexError)))


@contract(target=SP + 'ActionSpace.action_to_int', args={'self': ASPACE, 'action': 'Action'}, props=['C20'])
def action_space_action_to_int(self, action):
    ensures('inverse-of-int-to-action', lambda: implies(returned(), lambda: (
        0 <= result() and result() < 8 and self.actions[result()] is action
        and forall_int(0, result(), lambda j: self.actions[j] is not action))))
    ensures('raises-iff-absent', lambda: returned() == exists_int(0, 8, lambda i: self.actions[i] is action))


@contract(target=SP + 'ActionSpace.num_actions', args={'self': ASPACE}, props=['C20'])
def action_space_num_actions(self):
    ensures('count', lambda: returned() and result() == 8)


# ------------------------------------------------------------------------- builders
@lemma(args={'shape': 'Shape', 'types': ('list', 'Class', 3), 'colors': ('list', 'Color', 2), 'skip': ('oneof', [0, 1, 2, 3])},
       props=['C01', 'C15'])
def state_space_builder(shape, types, colors, skip):
    from gym_gridverse.utils.space_builders import StateSpaceBuilder
    b = StateSpaceBuilder()
    if skip != 1:
        b.set_grid_shape(shape)
    if skip != 2:
        b.set_object_types(types)
    if skip != 3:
        b.set_colors(colors)
    if skip == 0:
        s = b.build()
        check('builds-the-space-of-the-given-parts', lambda: s.grid_shape == shape and all(
            s.object_types[i] is types[i] for i in range(3)) and len(s.object_types) == 3
            and all(c in s.colors for c in colors) and Color.NONE in s.colors)
    else:
        try:
            b.build()
            ok = False
        except RuntimeError:
            ok = True
        check('incomplete-builder-raises', lambda: ok)


# ------------------------------------------------------------------------- index bounds used by the representations
def index_bounds(space, o, extra_cls):
    held_or_cell = any(type(o) is t for t in space.object_types) or isinstance(o, extra_cls)
    check('type-and-status-indices-of-member-objects-are-bounded', lambda: implies(held_or_cell, lambda: (
        0 <= o.type_index() and o.type_index() <= space.max_type_index
        and 0 <= o.state_index and o.state_index < o.num_states() and o.num_states() <= space.max_state_index)))
    check('colour-indices-of-declared-colours-are-bounded', lambda: implies(
        o.color in space.colors, lambda: 0 <= o.color.value and o.color.value <= space.max_object_color))
    check('grid-bounds-do-not-exceed-the-overall-ones', lambda: space.max_grid_object_type <= space.max_type_index
          and space.max_grid_object_status <= space.max_state_index
          and space.max_agent_object_type <= space.max_type_index
          and space.max_agent_object_status <= space.max_state_index)


@lemma(args={'space': SSPACE, 'o': 'Obj'}, props=['C15'])
def state_space_index_bounds(space, o):
    index_bounds(space, o, NoneGridObject)
    check('shapes', lambda: space.grid_state_shape == space.grid_shape and space.agent_state_shape == 5)


@lemma(args={'space': ('new', SP + 'StateSpace', ['Shape', ('list', 'Class', 4), ('list', 'Color', 2)])}, props=['C15'])
def state_space_representable(space):
    check('representable-iff-every-class-is', lambda: space.can_be_represented == all(
        t.can_be_represented_in_state() for t in space.object_types))


@lemma(args={'space': OSPACE, 'o': 'Obj'}, props=['C15'])
def observation_space_index_bounds(space, o):
    index_bounds(space, o, (NoneGridObject, Hidden))
