"""Contracts for gym_gridverse/envs/reward_functions.py (C01 C03 C12)."""
from pyvc_rt import *
from contracts.spec import *
from gym_gridverse.action import Action
from gym_gridverse.geometry import Position
from gym_gridverse.grid_object import Beacon, Door, Exit, MovingObstacle, Wall

RF = 'gym_gridverse.envs.reward_functions:'
SAN = {'state': 'State', 'action': 'Action', 'next_state': 'State'}


def pure(state, action, next_state, rng, s0, n0):
    ensures('pure', lambda: same(state, s0) and same(next_state, n0))
    ensures('no-draw', lambda: draws(rng) == 0)


@contract(target=RF + 'overlap', args=dict(SAN, object_type='Class', reward_on='float', reward_off='float', rng='Rng'),
          kwonly=['object_type', 'reward_on', 'reward_off', 'rng'], props=['C02', 'C01', 'C03', 'C12'])
def overlap(state, action, next_state, object_type, reward_on, reward_off, rng):
    requires(in_grid(next_state.grid, next_state.agent.position))
    s0 = old(state)
    n0 = old(next_state)
    ensures('total', lambda: returned())
    ensures('exact', lambda: result() == (
        reward_on if isinstance(n0.grid[n0.agent.position], object_type) else reward_off))
    pure(state, action, next_state, rng, s0, n0)


@contract(target=RF + 'living_reward', args=dict(SAN, reward='float', rng='Rng'), kwonly=['reward', 'rng'],
          props=['C02', 'C01', 'C03', 'C12'])
def living_reward(state, action, next_state, reward, rng):
    s0 = old(state)
    n0 = old(next_state)
    ensures('total', lambda: returned())
    ensures('exact', lambda: result() == reward)
    pure(state, action, next_state, rng, s0, n0)


@contract(target=RF + 'reach_exit', args=dict(SAN, reward_on='float', reward_off='float', rng='Rng'),
          kwonly=['reward_on', 'reward_off', 'rng'], props=['C02', 'C01', 'C03', 'C12'])
def reach_exit(state, action, next_state, reward_on, reward_off, rng):
    requires(in_grid(next_state.grid, next_state.agent.position))
    s0 = old(state)
    n0 = old(next_state)
    ensures('total', lambda: returned())
    ensures('exact', lambda: result() == (
        reward_on if isinstance(n0.grid[n0.agent.position], Exit) else reward_off))
    pure(state, action, next_state, rng, s0, n0)


@contract(target=RF + 'bump_moving_obstacle', args=dict(SAN, reward='float', rng='Rng'), kwonly=['reward', 'rng'],
          props=['C02', 'C01', 'C03', 'C12'])
def bump_moving_obstacle(state, action, next_state, reward, rng):
    requires(in_grid(next_state.grid, next_state.agent.position))
    s0 = old(state)
    n0 = old(next_state)
    ensures('total', lambda: returned())
    ensures('exact', lambda: result() == (
        reward if isinstance(n0.grid[n0.agent.position], MovingObstacle) else 0.0))
    pure(state, action, next_state, rng, s0, n0)


@contract(target=RF + 'bump_into_wall', args=dict(SAN, reward='float', rng='Rng'), kwonly=['reward', 'rng'],
          props=['C02', 'C01', 'C03', 'C12'])
def bump_into_wall(state, action, next_state, reward, rng):
    requires(in_grid(state.grid, state.agent.position))
    s0 = old(state)
    n0 = old(next_state)
    tgt = move_target(s0.agent.position, s0.agent.orientation, action)
    ensures('total', lambda: returned())
    ensures('exact', lambda: result() == (
        reward if (in_grid(s0.grid, tgt) and isinstance(s0.grid[tgt], Wall)) else 0.0))
    ensures('only-moves-bump', lambda: implies(not is_move(action) and not isinstance(
        s0.grid[s0.agent.position], Wall), lambda: result() == 0.0))
    pure(state, action, next_state, rng, s0, n0)


@contract(target=RF + 'actuate_door', args=dict(SAN, reward_open='float', reward_close='float', rng='Rng'),
          kwonly=['reward_open', 'reward_close', 'rng'], props=['C02', 'C01', 'C03', 'C12'])
def actuate_door(state, action, next_state, reward_open, reward_close, rng):
    requires(in_grid(state.grid, state.agent.position))
    requires(next_state.grid.shape == state.grid.shape)
    s0 = old(state)
    n0 = old(next_state)
    fr = front(s0)
    both = action is Action.ACTUATE and in_grid(s0.grid, fr) and isinstance(s0.grid[fr], Door) and isinstance(
        n0.grid[fr], Door)
    ensures('total', lambda: returned())
    ensures('exact', lambda: result() == (
        (reward_open if (not s0.grid[fr].is_open and n0.grid[fr].is_open) else (
            reward_close if (s0.grid[fr].is_open and not n0.grid[fr].is_open) else 0.0)) if both else 0.0))
    pure(state, action, next_state, rng, s0, n0)


@contract(target=RF + 'pickndrop', args=dict(SAN, object_type='Class', reward_pick='float', reward_drop='float', rng='Rng'),
          kwonly=['object_type', 'reward_pick', 'reward_drop', 'rng'], props=['C02', 'C01', 'C03', 'C12'])
def pickndrop(state, action, next_state, object_type, reward_pick, reward_drop, rng):
    s0 = old(state)
    n0 = old(next_state)
    had = isinstance(s0.agent.grid_object, object_type)
    has = isinstance(n0.agent.grid_object, object_type)
    ensures('total', lambda: returned())
    ensures('exact', lambda: result() == (reward_pick if (not had and has) else (reward_drop if (had and not has) else 0.0)))
    pure(state, action, next_state, rng, s0, n0)


def unique_cell(grid, object_type, c):
    return in_grid(grid, c) and isinstance(grid[c], object_type) and forall_cells(
        grid, lambda d: implies(isinstance(grid[d], object_type), d == c))


@contract(target=RF + 'getting_closer',
          args=dict(SAN, distance_function=('fn', 'float'), object_type='Class', reward_closer='float',
                    reward_further='float', rng='Rng', c1='Position', c2='Position'),
          kwonly=['distance_function', 'object_type', 'reward_closer', 'reward_further', 'rng'],
          ghost=['c1', 'c2'], props=['C02', 'C01', 'C03', 'C12'])
def getting_closer(state, action, next_state, distance_function, object_type, reward_closer, reward_further, rng, c1, c2):
    # documented precondition: object_type is the type of a *unique* object in the grid (ghost c1, c2: where)
    requires(unique_cell(state.grid, object_type, c1) and unique_cell(next_state.grid, object_type, c2))
    s0 = old(state)
    n0 = old(next_state)
    ensures('total', lambda: returned())
    ensures('measures-the-right-pairs', lambda: ghost_calls(distance_function) == 2
            and ghost_arg(distance_function, 0, 0) == s0.agent.position and ghost_arg(distance_function, 0, 1) == c1
            and ghost_arg(distance_function, 1, 0) == n0.agent.position and ghost_arg(distance_function, 1, 1) == c2)
    ensures('sign-of-change', lambda: returned() and result() == (
        reward_closer if ghost_result(distance_function, 1) < ghost_result(distance_function, 0) else (
            reward_further if ghost_result(distance_function, 1) > ghost_result(distance_function, 0) else 0.0)))
    pure(state, action, next_state, rng, s0, n0)


@contract(target=RF + 'proportional_to_distance',
          args=dict(SAN, distance_function=('fn', 'float'), object_type='Class', reward_per_unit_distance='float',
                    rng='Rng', c2='Position'),
          kwonly=['distance_function', 'object_type', 'reward_per_unit_distance', 'rng'], ghost=['c2'],
          props=['C02', 'C01', 'C03', 'C12'])
def proportional_to_distance(state, action, next_state, distance_function, object_type, reward_per_unit_distance, rng, c2):
    requires(unique_cell(next_state.grid, object_type, c2))
    s0 = old(state)
    n0 = old(next_state)
    ensures('total', lambda: returned())
    ensures('exact', lambda: ghost_calls(distance_function) == 1
            and ghost_arg(distance_function, 0, 0) == n0.agent.position and ghost_arg(distance_function, 0, 1) == c2
            and result() == reward_per_unit_distance * ghost_result(distance_function, 0))
    pure(state, action, next_state, rng, s0, n0)


@contract(target=RF + 'reach_exit_memory', args=dict(SAN, reward_good='float', reward_bad='float', rng='Rng', b='Position'),
          kwonly=['reward_good', 'reward_bad', 'rng'], ghost=['b'], props=['C02', 'C01', 'C03', 'C12'])
def reach_exit_memory(state, action, next_state, reward_good, reward_bad, rng, b):
    requires(in_grid(next_state.grid, next_state.agent.position))
    # documented setting (memory tasks): beacons exist and all have one colour; ghost b: some beacon
    requires(in_grid(next_state.grid, b) and isinstance(next_state.grid[b], Beacon))
    requires(forall_cells(next_state.grid, lambda d: implies(isinstance(next_state.grid[d], Beacon),
                                                             lambda: next_state.grid[d].color is next_state.grid[b].color)))
    s0 = old(state)
    n0 = old(next_state)
    here = n0.grid[n0.agent.position]
    ensures('total', lambda: returned())
    ensures('exact', lambda: result() == (
        (reward_good if here.color is n0.grid[b].color else reward_bad) if isinstance(here, Exit) else 0.0))
    pure(state, action, next_state, rng, s0, n0)


FN3 = ('list', ('fn', 'float'), 3)


@contract(target=RF + 'reduce_sum', args=dict(SAN, reward_functions=FN3, rng='Rng'),
          kwonly=['reward_functions', 'rng'], props=['C01', 'C02', 'C03', 'C12'])
def reduce_sum(state, action, next_state, reward_functions, rng):
    s0 = old(state)
    n0 = old(next_state)
    ensures('total', lambda: returned())
    ensures('each-part-once-on-the-same-triple', lambda: forall_int(0, 3, lambda i: (
        ghost_calls(reward_functions[i]) == 1 and ghost_arg(reward_functions[i], 0, 0) is state
        and ghost_arg(reward_functions[i], 0, 1) is action and ghost_arg(reward_functions[i], 0, 2) is next_state
        and ghost_kwarg(reward_functions[i], 0, 'rng') is rng)))
    ensures('sum', lambda: result() == ghost_result(reward_functions[0], 0) + ghost_result(reward_functions[1], 0)
            + ghost_result(reward_functions[2], 0))
    pure(state, action, next_state, rng, s0, n0)


DIJ = 'gym_gridverse.envs.reward_functions:dijkstra'


def is_layout_of(layout, grid):
    """layout[y][x] tells whether the cell can be walked on in *this* grid"""
    return (len(layout) == grid.shape.height and forall_int(0, grid.shape.height, lambda y: (
        len(layout[y]) == grid.shape.width and forall_int(0, grid.shape.width, lambda x: (
            layout[y][x] == (not grid[Position(y, x)].blocks_movement))))))


@contract(target=RF + 'getting_closer_shortest_path',
          args=dict(SAN, object_type='Class', reward_closer='float', reward_further='float', rng='Rng',
                    c1='Position', c2='Position'),
          kwonly=['object_type', 'reward_closer', 'reward_further', 'rng'], ghost=['c1', 'c2'],
          stubs={DIJ: ('native-real', 'RealArr')}, props=['C02', 'C01', 'C03', 'C12'])
def getting_closer_shortest_path(state, action, next_state, object_type, reward_closer, reward_further, rng, c1, c2):
    requires(unique_cell(state.grid, object_type, c1) and unique_cell(next_state.grid, object_type, c2))
    requires(in_grid(state.grid, state.agent.position) and in_grid(next_state.grid, next_state.agent.position))
    s0 = old(state)
    n0 = old(next_state)
    # dijkstra (numpy BFS, checked by a bounded stand-in) returns a table of the layout's shape
    stub_assume(DIJ, lambda table, layout, source: symbolic() and table.shape == (len(layout), len(layout[0])))
    ensures('total', lambda: returned())
    ensures('each-distance-is-measured-in-its-own-state', lambda: not symbolic() or (
        ghost_calls(DIJ) == 2
        and is_layout_of(ghost_arg(DIJ, 0, 0), s0.grid) and ghost_arg(DIJ, 0, 1) == (c1.y, c1.x)
        and is_layout_of(ghost_arg(DIJ, 1, 0), n0.grid) and ghost_arg(DIJ, 1, 1) == (c2.y, c2.x)))
    def d_prev():
        return ghost_result(DIJ, 0)[s0.agent.position.y, s0.agent.position.x]
    def d_next():
        return ghost_result(DIJ, 1)[n0.agent.position.y, n0.agent.position.x]
    ensures('sign-of-change', lambda: not symbolic() or (returned() and result() == (
        reward_closer if d_next() < d_prev() else (reward_further if d_next() > d_prev() else 0.0))))
    # natively: the same statement against an independent breadth-first search
    ensures_native('sign-of-change-against-bfs', lambda: returned() and result() == (
        reward_closer if bfs(n0, c2) < bfs(s0, c1) else (reward_further if bfs(n0, c2) > bfs(s0, c1) else 0.0)))
    pure(state, action, next_state, rng, s0, n0)


def bfs(state, target):
    """walking distance from the agent to `target` in this state's own layout (inf if unreachable)"""
    from collections import deque
    g = state.grid
    dist = {(target.y, target.x): 0}
    q = deque([(target.y, target.x)])
    while q:
        y, x = q.popleft()
        for dy, dx in ((-1, 0), (1, 0), (0, -1), (0, 1)):
            ny, nx = y + dy, x + dx
            if 0 <= ny < g.shape.height and 0 <= nx < g.shape.width and (ny, nx) not in dist \
                    and not g[Position(ny, nx)].blocks_movement:
                dist[(ny, nx)] = dist[(y, x)] + 1
                q.append((ny, nx))
    return dist.get((state.agent.position.y, state.agent.position.x), float('inf'))
