"""Contracts for gym_gridverse/envs/reset_functions.py (C01 C02 C08 C13)."""
from pyvc_rt import *
from contracts.spec import *
from contracts.design import on_border
from gym_gridverse.geometry import Orientation, Position, Shape
from gym_gridverse.grid_object import (Beacon, Color, Door, Exit, Floor, Key, MovingObstacle, NoneGridObject,
                                       Telepod, Wall)

RS = 'gym_gridverse.envs.reset_functions:'


def wall_boundary(grid):
    return forall_cells(grid, lambda c: implies(on_border(grid.area, c), lambda: isinstance(grid[c], Wall)))


def agent_ok(state):
    """inside the grid, empty-handed, on a cell that does not block movement and is not an exit,
    moving obstacle or telepod"""
    here = state.grid[state.agent.position]
    return (isinstance(state.agent.grid_object, NoneGridObject) and not here.blocks_movement
            and not isinstance(here, Exit) and not isinstance(here, MovingObstacle) and not isinstance(here, Telepod))


def exactly_one(grid, pred):
    return exists_cells(grid, lambda c: pred(grid[c])) and forall_cells(
        grid, lambda c: forall_cells(grid, lambda d: implies(pred(grid[c]) and pred(grid[d]), lambda: c == d)))


def well_formed(state, shape):
    return (state.grid.shape == shape and wall_boundary(state.grid) and in_grid(state.grid, state.agent.position)
            and agent_ok(state))


def only_valueerror():
    return implies(not returned(), lambda: raised(ValueError))


@contract(target=RS + 'empty', args={'shape': 'Shape', 'random_agent': 'bool', 'random_exit': 'bool', 'rng': 'Rng'},
          kwonly=['rng'], props=['C01', 'C02', 'C08', 'C13'])
def empty(shape, random_agent, random_exit, rng):
    big = shape.height >= 4 and shape.width >= 4
    ensures('rejects-exactly-too-small-shapes', lambda: returned() == big and only_valueerror())
    ensures('well-formed', lambda: implies(returned(), lambda: well_formed(result(), shape)))
    ensures('exactly-one-exit', lambda: implies(returned(), lambda: exactly_one(result().grid, lambda o: isinstance(o, Exit))))
    ensures('interior-is-floor-or-the-exit', lambda: implies(returned(), lambda: forall_cells(
        result().grid, lambda c: implies(not on_border(result().grid.area, c), lambda: isinstance(
            result().grid[c], Floor) or isinstance(result().grid[c], Exit)))))
    ensures('draws-only-when-randomised', lambda: implies(not random_agent and not random_exit, lambda: draws(rng) == 0))


@contract(target=RS + 'keydoor', args={'shape': 'Shape', 'rng': 'Rng'}, kwonly=['rng'], props=['C01', 'C02', 'C08', 'C13'])
def keydoor(shape, rng):
    h = shape.height
    w = shape.width
    valid = h >= 4 and w >= 5     # smallest shape with a floor cell on both sides of a wall column, plus the exit
    ensures('rejects-only-shapes-that-cannot-be-honoured', lambda: implies(valid, lambda: returned()) and only_valueerror())
    ensures('well-formed', lambda: implies(returned(), lambda: well_formed(result(), shape)))
    def inventory():
        g = result().grid
        xw = draw_value(rng, 0)        # the column chosen for the dividing wall
        return (2 <= xw and xw <= w - 3
                # the dividing wall: interior cells of column xw are walls except exactly one locked door
                and forall_int(1, h - 1, lambda y: isinstance(g[y, xw], Wall) or isinstance(g[y, xw], Door))
                and exactly_one(g, lambda o: isinstance(o, Door))
                and forall_cells(g, lambda c: implies(isinstance(g[c], Door), lambda: (
                    c.x == xw and 1 <= c.y and c.y <= h - 2 and g[c].state is Door.Status.LOCKED)))
                # exactly one key, of the door's colour, on the agent's side of the wall
                and exactly_one(g, lambda o: isinstance(o, Key))
                and forall_cells(g, lambda c: forall_cells(g, lambda d: implies(
                    isinstance(g[c], Key) and isinstance(g[d], Door), lambda: g[c].color is g[d].color and c.x < xw)))
                and result().agent.position.x < xw
                # the exit beyond the wall
                and exactly_one(g, lambda o: isinstance(o, Exit))
                and forall_cells(g, lambda c: implies(isinstance(g[c], Exit), lambda: c.x > xw)))
    ensures('inventory', lambda: implies(returned(), inventory))


@contract(target=RS + 'teleport', args={'shape': 'Shape', 'rng': 'Rng'}, kwonly=['rng'], props=['C01', 'C02', 'C08', 'C13'])
def teleport_reset(shape, rng):
    valid = shape.height >= 4 and shape.width >= 4 and shape.height * shape.width >= 20
    ensures('only-valueerror', lambda: only_valueerror())
    ensures('total-when-there-is-room', lambda: implies(shape.height >= 4 and shape.width >= 5, lambda: returned()))
    ensures('well-formed', lambda: implies(returned(), lambda: well_formed(result(), shape)))
    def inventory():
        g = result().grid
        return (exists_cells(g, lambda c: exists_cells(g, lambda d: c != d and isinstance(g[c], Telepod)
                                                       and isinstance(g[d], Telepod) and g[c].color is g[d].color
                                                       and forall_cells(g, lambda e: implies(isinstance(g[e], Telepod),
                                                                                             lambda: e == c or e == d))))
                and exactly_one(g, lambda o: isinstance(o, Exit)))
    ensures('two-same-coloured-telepods-and-one-exit', lambda: implies(returned(), inventory))


K_COLORS = 3   # three pairwise distinct symbolic colours: every set of 3 colours (NONE included or not)


@contract(target=RS + 'memory', args={'shape': 'Shape', 'colors': ('distinct-set', 'Color', K_COLORS), 'rng': 'Rng'},
          kwonly=['rng'], props=['C01', 'C02', 'C08', 'C13'])
def memory(shape, colors, rng):
    h = shape.height
    w = shape.width
    valid = h >= 5 and w >= 5 and w % 2 == 1 and Color.NONE not in colors
    ensures('rejects-exactly-invalid-parameters', lambda: returned() == valid and only_valueerror())
    ensures('well-formed', lambda: implies(returned(), lambda: well_formed(result(), shape)))
    def inventory():
        g = result().grid
        corners = [Position(1, 1), Position(1, w - 2)]          # witness hints for the prover
        return (
            # two exits of distinct colours
            exists_cells(g, lambda c: exists_cells(g, lambda d: c != d and isinstance(g[c], Exit) and isinstance(g[d], Exit)
                                                   and g[c].color is not g[d].color
                                                   and forall_cells(g, lambda e: implies(isinstance(g[e], Exit), lambda: e == c or e == d)),
                                                   hints=corners), hints=corners)
            # beacons exist, all of one colour, which is the colour of an exit
            and exists_cells(g, lambda b: isinstance(g[b], Beacon), hints=[Position(h - 2, 1)])
            and forall_cells(g, lambda b: forall_cells(g, lambda b2: implies(
                isinstance(g[b], Beacon) and isinstance(g[b2], Beacon), lambda: g[b].color is g[b2].color)))
            and forall_cells(g, lambda b: implies(isinstance(g[b], Beacon), lambda: exists_cells(
                g, lambda e: isinstance(g[e], Exit) and g[e].color is g[b].color, hints=corners)))
            # only the requested colours are used
            and forall_cells(g, lambda c: implies(isinstance(g[c], Exit) or isinstance(g[c], Beacon), lambda: g[c].color in colors)))
    ensures('two-distinct-exits-beacons-match-one', lambda: implies(returned(), inventory))
    ensures('independent-of-hash-order', lambda: effects('set_order') == 0)


@contract(target=RS + 'memory', args={'shape': 'Shape', 'colors': ('distinct-set', 'Color', 1), 'rng': 'Rng'},
          kwonly=['rng'], props=['C13'])
def memory_too_few_colors(shape, colors, rng):
    ensures('rejected', lambda: raised(ValueError))


# for pos in sample_positions: assert floor; grid[pos] = MovingObstacle()
@loop_invariant(target=RS + 'dynamic_obstacles', loop=0, kind='indexed', modifies=['state'])
def dynamic_obstacles_inv(k, n, item, pre, state):
    g = state.grid
    g0 = pre.state.grid
    return (g.shape == g0.shape
            and forall_cells(g, lambda c: same(g[c], MovingObstacle() if exists_int(0, k, lambda j: item(j) == c) else g0[c]))
            # the sampled cells are pairwise distinct vacant floor cells other than the agent's
            and forall_int(0, n, lambda j: in_grid(g0, item(j)) and isinstance(g0[item(j)], Floor)
                           and item(j) != state.agent.position)
            and forall_int(0, n, lambda i: forall_int(0, n, lambda j: implies(item(i) == item(j), lambda: i == j))))


@contract(target=RS + 'dynamic_obstacles',
          args={'shape': 'Shape', 'num_obstacles': 'int', 'random_agent': 'bool', 'rng': 'Rng'}, kwonly=['rng'],
          props=['C01', 'C02', 'C08', 'C13'])
def dynamic_obstacles(shape, num_obstacles, random_agent, rng):
    ensures('only-valueerror', lambda: only_valueerror())
    ensures('well-formed', lambda: implies(returned(), lambda: well_formed(result(), shape)))
    ensures('exactly-one-exit', lambda: implies(returned(), lambda: exactly_one(result().grid, lambda o: isinstance(o, Exit))))
    ensures('interior-is-floor-obstacle-or-the-exit', lambda: implies(returned(), lambda: forall_cells(
        result().grid, lambda c: implies(not on_border(result().grid.area, c), lambda: isinstance(result().grid[c], Floor)
                                         or isinstance(result().grid[c], Exit) or isinstance(result().grid[c], MovingObstacle)))))
    ensures_native('the-requested-number-of-obstacles', lambda: implies(returned(), lambda: sum(
        1 for p in result().grid.area.positions() if isinstance(result().grid[p], MovingObstacle)) == num_obstacles))
    ensures_native('too-many-obstacles-are-rejected', lambda: returned() == (
        shape.height >= 4 and shape.width >= 4 and 0 <= num_obstacles
        and num_obstacles <= (shape.height - 2) * (shape.width - 2) - 2))


# ---------------------------------------------------------------------------------------------------
# rooms, memory_rooms, crossing use numpy.linspace / shuffles / counted paths: outside the symbolic
# verifier.  Their contracts are evaluated natively only (bounded stand-in, labelled in the evidence).
LAYOUT = ('tuple', ['small', 'small'])


@contract(target=RS + 'rooms', args={'shape': 'Shape', 'layout': LAYOUT, 'rng': 'Rng'}, kwonly=['rng'], props=['C02', 'C13'],
          bounded=True)
def rooms(shape, layout, rng):
    requires(shape.height >= 1 and shape.width >= 1)   # quantifier of the property: shapes from 1x1 up
    requires(layout[0] >= 1 and layout[1] >= 1)     # a layout counts rooms
    ensures('only-valueerror', lambda: only_valueerror())
    ensures('well-formed', lambda: implies(returned(), lambda: well_formed(result(), shape)))
    ensures('exactly-one-exit', lambda: implies(returned(), lambda: exactly_one(result().grid, lambda o: isinstance(o, Exit))))


@contract(target=RS + 'memory_rooms',
          args={'shape': 'Shape', 'layout': LAYOUT, 'colors': ('distinct-set', 'Color', 3), 'num_beacons': 'small',
                'num_exits': 'small', 'rng': 'Rng'}, kwonly=['rng'], props=['C13', 'C02'], bounded=True)
def memory_rooms(shape, layout, colors, num_beacons, num_exits, rng):
    requires(shape.height >= 1 and shape.width >= 1)
    requires(layout[0] >= 1 and layout[1] >= 1)
    ensures('only-valueerror', lambda: only_valueerror())
    ensures('well-formed', lambda: implies(returned(), lambda: well_formed(result(), shape)))
    def inventory():
        g = result().grid
        exits = [g[p] for p in g.area.positions() if isinstance(g[p], Exit)]
        beacons = [g[p] for p in g.area.positions() if isinstance(g[p], Beacon)]
        return (len(exits) == num_exits and len(beacons) == num_beacons
                and len(set(e.color for e in exits)) == len(exits)
                and len(set(b.color for b in beacons)) == 1
                and sum(1 for e in exits if e.color is beacons[0].color) == 1)
    ensures('inventory', lambda: implies(returned(), inventory))
    ensures('independent-of-hash-order', lambda: effects('set_order') == 0)


@contract(target=RS + 'crossing', args={'shape': 'Shape', 'num_rivers': 'small', 'object_type': 'Class0', 'rng': 'Rng'},
          kwonly=['rng'], props=['C02', 'C13'], bounded=True)
def crossing(shape, num_rivers, object_type, rng):
    requires(shape.height >= 1 and shape.width >= 1)
    ensures('only-valueerror', lambda: only_valueerror())
    ensures('well-formed', lambda: implies(returned(), lambda: well_formed(result(), shape)))
    ensures('exactly-one-exit', lambda: implies(returned(), lambda: exactly_one(result().grid, lambda o: isinstance(o, Exit))))


# ---------------------------------------------------------------------------------------------------
# rooms for fixed small layouts, symbolic shapes and every generator outcome (the layout dimension is
# bounded: one contract per layout; np.linspace is modelled exactly, see lib.np_linspace)
def rooms_contract(shape, rng):
    requires(shape.height >= 1 and shape.width >= 1)   # quantifier of the property: shapes from 1x1 up
    ensures('only-valueerror', lambda: only_valueerror())
    ensures('well-formed', lambda: implies(returned(), lambda: well_formed(result(), shape)))
    ensures('exactly-one-exit', lambda: implies(returned(), lambda: exactly_one(result().grid, lambda o: isinstance(o, Exit))))
    ensures('only-walls-floor-and-the-exit', lambda: implies(returned(), lambda: forall_cells(
        result().grid, lambda c: isinstance(result().grid[c], Wall) or isinstance(result().grid[c], Floor)
        or isinstance(result().grid[c], Exit))))


@contract(target=RS + 'rooms', args={'shape': 'Shape', 'layout': ('const', (1, 1)), 'rng': 'Rng'}, kwonly=['rng'],
          props=['C02', 'C13', 'C08'])
def rooms_1x1(shape, layout, rng):
    rooms_contract(shape, rng)


@contract(target=RS + 'rooms', args={'shape': 'Shape', 'layout': ('const', (2, 2)), 'rng': 'Rng'}, kwonly=['rng'],
          props=['C02', 'C13', 'C08'])
def rooms_2x2(shape, layout, rng):
    rooms_contract(shape, rng)


@contract(target=RS + 'rooms', args={'shape': 'Shape', 'layout': ('const', (1, 3)), 'rng': 'Rng'}, kwonly=['rng'],
          props=['C02', 'C13', 'C08'])
def rooms_1x3(shape, layout, rng):
    rooms_contract(shape, rng)


@contract(target=RS + 'rooms', args={'shape': 'Shape', 'layout': ('const', (2, 1)), 'rng': 'Rng'}, kwonly=['rng'],
          props=['C02', 'C13', 'C08'])
def rooms_2x1(shape, layout, rng):
    rooms_contract(shape, rng)


# the layout of the shipped nine-rooms configurations
@contract(target=RS + 'rooms', args={'shape': 'Shape', 'layout': ('const', (3, 3)), 'rng': 'Rng'}, kwonly=['rng'],
          props=['C02', 'C13', 'C08'])
def rooms_3x3(shape, layout, rng):
    rooms_contract(shape, rng)


@contract(target=RS + 'rooms', args={'shape': 'Shape', 'layout': ('const', (3, 2)), 'rng': 'Rng'}, kwonly=['rng'],
          props=['C02', 'C13', 'C08'])
def rooms_3x2(shape, layout, rng):
    rooms_contract(shape, rng)


@contract(target=RS + 'rooms', args={'shape': 'Shape', 'layout': ('const', (1, 4)), 'rng': 'Rng'}, kwonly=['rng'],
          props=['C02', 'C13', 'C08'])
def rooms_1x4(shape, layout, rng):
    rooms_contract(shape, rng)


# ---------------------------------------------------------------------------------------------------
# memory_rooms for fixed small layouts and counts (symbolic shape, symbolic colour set, every outcome)
def memory_rooms_contract(shape, colors, num_beacons, num_exits, rng):
    requires(shape.height >= 1 and shape.width >= 1)
    ensures('only-valueerror', lambda: only_valueerror())
    ensures('rejects-none-colour', lambda: implies(Color.NONE in colors, lambda: raised(ValueError)))
    ensures('well-formed', lambda: implies(returned(), lambda: well_formed(result(), shape)))
    def inventory():
        g = result().grid
        return (
            # exits have pairwise distinct colours
            forall_cells(g, lambda c: forall_cells(g, lambda d: implies(
                isinstance(g[c], Exit) and isinstance(g[d], Exit) and c != d, lambda: g[c].color is not g[d].color)))
            # beacons are all of one colour, which is the colour of an exit
            and forall_cells(g, lambda b: forall_cells(g, lambda b2: implies(
                isinstance(g[b], Beacon) and isinstance(g[b2], Beacon), lambda: g[b].color is g[b2].color)))
            and forall_cells(g, lambda b: implies(isinstance(g[b], Beacon), lambda: exists_cells(
                g, lambda e: isinstance(g[e], Exit) and g[e].color is g[b].color)))
            # only the requested colours are used, nothing but walls, floor, beacons and exits
            and forall_cells(g, lambda c: implies(isinstance(g[c], Exit) or isinstance(g[c], Beacon), lambda: g[c].color in colors))
            and forall_cells(g, lambda c: isinstance(g[c], Wall) or isinstance(g[c], Floor) or isinstance(g[c], Exit)
                             or isinstance(g[c], Beacon))
            and exists_cells(g, lambda b: isinstance(g[b], Beacon))
            and exists_cells(g, lambda e: isinstance(g[e], Exit)))
    ensures('colour-discipline', lambda: implies(returned(), inventory))
    def counts():
        g = result().grid
        return (sum(1 for p in g.area.positions() if isinstance(g[p], Exit)) == num_exits
                and sum(1 for p in g.area.positions() if isinstance(g[p], Beacon)) == num_beacons)
    ensures_native('the-requested-numbers-of-exits-and-beacons', lambda: implies(returned(), counts))
    ensures('independent-of-hash-order', lambda: effects('set_order') == 0)


@contract(target=RS + 'memory_rooms',
          args={'shape': 'Shape', 'layout': ('const', (1, 1)), 'colors': ('distinct-set', 'Color', 3),
                'num_beacons': ('const', 1), 'num_exits': ('const', 2), 'rng': 'Rng'}, kwonly=['rng'], props=['C13', 'C02', 'C08'])
def memory_rooms_1x1(shape, layout, colors, num_beacons, num_exits, rng):
    memory_rooms_contract(shape, colors, num_beacons, num_exits, rng)


@contract(target=RS + 'memory_rooms',
          args={'shape': 'Shape', 'layout': ('const', (2, 2)), 'colors': ('distinct-set', 'Color', 3),
                'num_beacons': ('const', 2), 'num_exits': ('const', 3), 'rng': 'Rng'}, kwonly=['rng'], props=['C13', 'C02', 'C08'])
def memory_rooms_2x2(shape, layout, colors, num_beacons, num_exits, rng):
    memory_rooms_contract(shape, colors, num_beacons, num_exits, rng)


# the parameter sets of the shipped memory configurations (four rooms / nine rooms: 4 colours, 1 beacon, 2 exits)
@contract(target=RS + 'memory_rooms',
          args={'shape': 'Shape', 'layout': ('const', (2, 2)), 'colors': ('distinct-set', 'Color', 4),
                'num_beacons': ('const', 1), 'num_exits': ('const', 2), 'rng': 'Rng'}, kwonly=['rng'], props=['C13', 'C02', 'C08'])
def memory_rooms_shipped_2x2(shape, layout, colors, num_beacons, num_exits, rng):
    memory_rooms_contract(shape, colors, num_beacons, num_exits, rng)


@contract(target=RS + 'memory_rooms',
          args={'shape': 'Shape', 'layout': ('const', (3, 3)), 'colors': ('distinct-set', 'Color', 4),
                'num_beacons': ('const', 1), 'num_exits': ('const', 2), 'rng': 'Rng'}, kwonly=['rng'], props=['C13', 'C02', 'C08'])
def memory_rooms_shipped_3x3(shape, layout, colors, num_beacons, num_exits, rng):
    memory_rooms_contract(shape, colors, num_beacons, num_exits, rng)


# ---------------------------------------------------------------------------------------------------
# parameter validation of the resets whose bodies are bounded stand-ins: the rejecting paths are proved
@contract(target=RS + 'crossing', args={'shape': 'Shape', 'num_rivers': 'int', 'object_type': 'Class0', 'rng': 'Rng'},
          kwonly=['rng'], props=['C02', 'C13'])
def crossing_rejects_invalid_parameters(shape, num_rivers, object_type, rng):
    requires(shape.height < 5 or shape.height % 2 == 0 or shape.width < 5 or shape.width % 2 == 0 or num_rivers <= 0)
    ensures('valueerror', lambda: raised(ValueError))
    ensures('no-draw', lambda: draws(rng) == 0)


@contract(target=RS + 'memory_rooms',
          args={'shape': 'Shape', 'layout': LAYOUT, 'colors': ('distinct-set', 'Color', 3), 'num_beacons': 'int',
                'num_exits': 'int', 'rng': 'Rng'}, kwonly=['rng'], props=['C02', 'C13'])
def memory_rooms_rejects_invalid_parameters(shape, layout, colors, num_beacons, num_exits, rng):
    requires(Color.NONE in colors or num_beacons < 1 or num_exits < 2)
    ensures('valueerror', lambda: raised(ValueError))
    ensures('no-draw', lambda: draws(rng) == 0)


@contract(target=RS + 'memory_rooms',
          args={'shape': 'Shape', 'layout': LAYOUT, 'colors': ('distinct-set', 'Color', 1), 'num_beacons': 'int',
                'num_exits': 'int', 'rng': 'Rng'}, kwonly=['rng'], props=['C13'])
def memory_rooms_too_few_colors(shape, layout, colors, num_beacons, num_exits, rng):
    ensures('valueerror', lambda: raised(ValueError))
