"""Contracts for gym_gridverse/envs/terminating_functions.py (C01 C03 C12)."""
from pyvc_rt import *
from contracts.spec import *
from gym_gridverse.grid_object import Exit, MovingObstacle, Wall

TF = 'gym_gridverse.envs.terminating_functions:'
SAN = {'state': 'State', 'action': 'Action', 'next_state': 'State'}


def pure(state, action, next_state, rng, s0, n0):
    ensures('pure', lambda: same(state, s0) and same(next_state, n0))
    ensures('no-draw', lambda: draws(rng) == 0)


@contract(target=TF + 'overlap', args=dict(SAN, object_type='Class', rng='Rng'), kwonly=['object_type', 'rng'],
          props=['C02', 'C01', 'C03', 'C12'])
def t_overlap(state, action, next_state, object_type, rng):
    requires(in_grid(next_state.grid, next_state.agent.position))
    s0 = old(state)
    n0 = old(next_state)
    ensures('total', lambda: returned())
    ensures('exact', lambda: result() == isinstance(n0.grid[n0.agent.position], object_type))
    pure(state, action, next_state, rng, s0, n0)


@contract(target=TF + 'reach_exit', args=dict(SAN, rng='Rng'), kwonly=['rng'], props=['C02', 'C01', 'C03', 'C12'])
def t_reach_exit(state, action, next_state, rng):
    requires(in_grid(next_state.grid, next_state.agent.position))
    s0 = old(state)
    n0 = old(next_state)
    ensures('total', lambda: returned())
    ensures('exact', lambda: result() == isinstance(n0.grid[n0.agent.position], Exit))
    pure(state, action, next_state, rng, s0, n0)


@contract(target=TF + 'bump_moving_obstacle', args=dict(SAN, rng='Rng'), kwonly=['rng'], props=['C02', 'C01', 'C03', 'C12'])
def t_bump_moving_obstacle(state, action, next_state, rng):
    requires(in_grid(next_state.grid, next_state.agent.position))
    s0 = old(state)
    n0 = old(next_state)
    ensures('total', lambda: returned())
    ensures('exact', lambda: result() == isinstance(n0.grid[n0.agent.position], MovingObstacle))
    pure(state, action, next_state, rng, s0, n0)


@contract(target=TF + 'bump_into_wall', args=dict(SAN, rng='Rng'), kwonly=['rng'], props=['C02', 'C01', 'C03', 'C12'])
def t_bump_into_wall(state, action, next_state, rng):
    requires(in_grid(state.grid, state.agent.position))
    s0 = old(state)
    n0 = old(next_state)
    tgt = move_target(s0.agent.position, s0.agent.orientation, action)
    ensures('total', lambda: returned())
    ensures('exact', lambda: result() == (in_grid(s0.grid, tgt) and isinstance(s0.grid[tgt], Wall)))
    pure(state, action, next_state, rng, s0, n0)


FN3 = ('list', ('fn', 'bool'), 3)


def parts_called(state, action, next_state, terminating_functions, rng):
    ensures('each-part-on-the-same-triple', lambda: forall_int(0, 3, lambda i: implies(
        ghost_calls(terminating_functions[i]) > 0, lambda: (
            ghost_calls(terminating_functions[i]) == 1 and ghost_arg(terminating_functions[i], 0, 0) is state
            and ghost_arg(terminating_functions[i], 0, 1) is action
            and ghost_arg(terminating_functions[i], 0, 2) is next_state
            and ghost_kwarg(terminating_functions[i], 0, 'rng') is rng))))


def val(terminating_functions, i):
    return ghost_result(terminating_functions[i], 0)


@contract(target=TF + 'reduce_any', args=dict(SAN, terminating_functions=FN3, rng='Rng'),
          kwonly=['terminating_functions', 'rng'], props=['C01', 'C02', 'C03', 'C12'])
def t_reduce_any(state, action, next_state, terminating_functions, rng):
    s0 = old(state)
    n0 = old(next_state)
    ensures('total', lambda: returned())
    parts_called(state, action, next_state, terminating_functions, rng)
    # `any` short-circuits: later parts are evaluated only while earlier ones are False
    ensures('is-or', lambda: ghost_calls(terminating_functions[0]) == 1 and result() == (
        val(terminating_functions, 0) or val(terminating_functions, 1) or val(terminating_functions, 2)))
    pure(state, action, next_state, rng, s0, n0)


@contract(target=TF + 'reduce_all', args=dict(SAN, terminating_functions=FN3, rng='Rng'),
          kwonly=['terminating_functions', 'rng'], props=['C01', 'C02', 'C03', 'C12'])
def t_reduce_all(state, action, next_state, terminating_functions, rng):
    s0 = old(state)
    n0 = old(next_state)
    ensures('total', lambda: returned())
    parts_called(state, action, next_state, terminating_functions, rng)
    ensures('is-and', lambda: ghost_calls(terminating_functions[0]) == 1 and result() == (
        val(terminating_functions, 0) and val(terminating_functions, 1) and val(terminating_functions, 2)))
    pure(state, action, next_state, rng, s0, n0)


@lemma(args={'next_state': 'State', 'state': 'State', 'action': 'Action', 'on': 'float', 'off': 'float'}, props=['C12'])
def exit_reward_iff_exit_termination(next_state, state, action, on, off):
    """an environment pays its exit reward on exactly the steps on which exit-termination fires"""
    from gym_gridverse.envs import reward_functions as rf
    from gym_gridverse.envs import terminating_functions as tf
    check('agree', lambda: implies(in_grid(next_state.grid, next_state.agent.position) and on != off, lambda: (
        rf.reach_exit(state, action, next_state, reward_on=on, reward_off=off) == on)
        == tf.reach_exit(state, action, next_state)))
