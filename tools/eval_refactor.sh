#!/bin/sh
# usage: eval_refactor.sh <worktree> : apply the worktree's (behaviour-preserving) diff to /repo, run all checks, restore
WT="$1"
git -C "$WT" diff -- gym_gridverse > /tmp/refactor.diff
[ -s /tmp/refactor.diff ] || { echo "no diff"; exit 2; }
git -C /repo apply /tmp/refactor.diff || { echo "apply failed"; exit 2; }
cd /verif
PYVC_EVIDENCE_DIR=/tmp/refactor_evidence ./check all 2>&1 | grep -E "VIOLATION|UNDECIDED|CHECKER|discharged" | cut -c1-260
git -C /repo checkout -- .
