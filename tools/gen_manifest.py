#!/usr/bin/env python3
"""Regenerates /verif/MANIFEST.json from the table below (kept in one place so that
claims, not-applicable reasons and commands stay consistent)."""
import json, os

VERIF = os.path.dirname(os.path.dirname(os.path.abspath(__file__)))
BASE_OFF = "cd /repo && /venv/bin/python -m pytest -ra -q -p no:cacheprovider --timeout=900 --continue-on-collection-errors"

NOTE = ("Trusted base (repeated in each evidence file): pyvc's symbolic semantics of the Python subset (guarded by a native "
        "cross-check of every contract on random inputs and by mutation self-tests), z3, the library models in pyvc/lib.py "
        "(numpy Generator draws are arbitrary in-range outcomes / permutations; numpy/list indexing; linspace; enum/dataclass; pickle round trip = deep copy; "
        "hash uninterpreted; gym<=0.21 stubs), closed world of the "
        "eleven built-in GridObject classes, ownership (no grid object reachable twice), partial correctness only, floats as reals.")

CLAIMS = {
    'C01': dict(
        text="Proof: every built-in transition keeps the state in the declared space and never raises (closure_* contracts: "
             "`declared` is an arbitrary predicate on objects closed under box opening and door opening, so the result holds for "
             "every type/colour space; shape preserved, agent inside the grid, held item declared), chain / "
             "transition_with_copy / GridWorld.functional_step wiring with opaque components (illegal actions raise ValueError "
             "before anything is called and change nothing; only debug checks can raise otherwise), every reward/termination "
             "component is total on such states, the observation of a state lies in the observation space "
             "(observation_stays_in_its_space), and StateSpace/ObservationSpace/ActionSpace.contains accept exactly the "
             "conforming values (symbolic spaces: 11 symbolic classes, 5 symbolic colours). Bounded: dijkstra.",
        design='5/C01'),
    'C02': dict(
        text="Proof of the per-call facts the reproducibility argument rests on: every component draws only from the generator it "
             "is passed (draw counts; implicit clause: no module-level state written, no generator created and drawn from, no "
             "dependence on set iteration order / identity), composites and GridWorld thread exactly their generator "
             "(chain, delegation and functional_* wiring contracts, set_seed), the sampling helpers of rng.py draw once from the given "
             "generator and return members / a permutation of their population, the debug flag only gates raises. Native replay of "
             "hash-order dependence re-runs the real function under different PYTHONHASHSEED values; every native contract run "
             "also snapshots numpy.random / random / the library generator. The induction over histories and numpy's "
             "'a Generator is a function of its seed' are stated assumptions.",
        design='5/C02'),
    'C03': dict(
        text="Proof: purity (deep structural equality of state / next state / observation input before and after) and no-draw "
             "for every reward, termination, observation and visibility function; transition_with_copy copies first, runs the "
             "transition on the copy only and returns it; from_visibility builds a fresh observation grid; equality is an "
             "equivalence on (type, status, colour) and equal objects / agents / grids of any shape hash alike; Grid.__eq__ and "
             "Agent.__eq__ exact; hashing a state before a copied in-place step does not change what the equal next states hash to; "
             "implicit clause: no global state written (history independence). Assumed: pickle round trip in fast_copy yields a structurally equal disjoint copy; "
             "lru_cache transparency for dijkstra / rays (callers proved not to write to the cached results' cells is covered "
             "by the write barrier of the loop rules).",
        design='5/C03'),
    'C13': dict(
        text="Proof + labelled bounded parts. Proved for symbolic shapes and every generator outcome: empty, keydoor, teleport, "
             "memory, dynamic_obstacles (well-formed: requested shape, unbroken wall boundary, agent inside on a free cell that is "
             "not exit/obstacle/telepod, empty-handed; inventories as advertised; ValueError and only ValueError for parameters "
             "that cannot be honoured), with the design.py drawing helpers verified against cell-exact contracts (loop "
             "invariants). rooms is proved for the fixed layouts (1,1), (2,2), (1,3), (2,1), (3,2), (1,4), (3,3), memory_rooms for (1,1) with 1 beacon / 2 exits, (2,2) "
             "with 2 beacons / 3 exits and the shipped parameter sets (2,2) / (3,3) with 4 colours, 1 beacon, 2 exits, each with symbolic shape, symbolic colour set and every outcome (numpy.linspace "
             "modelled exactly for at most 6 samples and compared with numpy by the setup command). Obstacle counts are evaluated "
             "natively only. rooms with other layouts, memory_rooms and crossing are evaluated natively only on random parameters: "
             "bounded stand-ins, not proof.",
        design='5/C13'),
    'C04': dict(
        text="Proof: lemmas over short histories of public calls on InnerEnv / OuterEnv objects built by their real constructors "
             "(the GridWorld functional_* methods are opaque stubs with a ghost call trace; no private attribute is named): "
             "state replaced through the functional interface, observation computed on demand at most once per state from the "
             "current state and invalidated by reset/step, a read before an operation never changes a read after it, "
             "RuntimeError before the first reset with nothing computed, outer env = representation.convert of the inner "
             "state/observation. The classes have three modes (unusable, state only, state + memoised observation), all reached "
             "by the histories checked; the trajectory-equality claim follows by induction over longer histories (stated, not mechanised). "
             "Bounded (labelled): every history of 5 (thorough 6) public calls on the stateful layers of two hand-built stochastic "
             "environments against a reference threaded through the functional interface; trajectories of the shipped configurations.",
        design='5/C04'),
    'C05': dict(
        text="Proof: cell-exact postcondition of from_visibility for an arbitrary (uninterpreted) visibility function, any view "
             "area, pose and grid: each observation cell is Hidden or exactly the world cell at pose*(area cell), cells outside "
             "the grid are Hidden, shape/anchor/heading/held item as stated (loop invariant for the masking loop; Grid.subgrid, "
             "Grid.__mul__, Transform*Area contracts). The four built-in observation functions are proved to delegate to it with "
             "the registered visibility function, and each visibility function is proved to meet the protocol it relies on "
             "(mask of the grid's shape, grid untouched); fully_transparent shows every in-grid cell.",
        design='5/C05'),
    'C06': dict(
        text="Proof + labelled bounded parts. Proved: partially_occluded by a modular contract on the recursive flood fill (marks "
             "only grow, own cell marked, every newly marked cell touches a marked transparent cell, cell contents are read "
             "only after the cell is marked); raytracing / stochastic_raytracing by nested loop invariants over an "
             "uninterpreted ray list (contents read only while the ray is lit, i.e. after the cell was counted lit; visible iff "
             "lit count >= 1; stochastic view never shows a cell no lit ray reaches and always shows fully lit cells, for every "
             "generator outcome). from_visibility shows the visibility function only the agent-frame slice. Bounded (exhaustive "
             "enumeration, not proof): monotonicity, non-interference and chain connectivity over all wall patterns of small "
             "views; ray shape/coverage (C19).",
        design='5/C06'),
    'C07': dict(
        text="Proof: lemma over the real operators - for every quarter turn r the agent-frame slice subgrid(pose*area)*heading of "
             "the world (g*r, rotated pose) equals that of (g, pose), for symbolic grids, poses and areas; the rotated pose exists "
             "and its heading is unique; from_visibility is proved to hand the visibility function exactly that slice and to "
             "return the masked slice, and the deterministic visibility functions draw nothing.",
        design='5/C07'),
    'C08': dict(
        text="Proof: exact postconditions of move_agent / turn_agent / get_next_position against spec functions written from the "
             "statement (symbolic grid shape, contents, pose, action), pose frames of every other built-in transition, door "
             "blocking flags, turn-composition lemmas, and the invariant 'agent inside the grid on a non-blocking cell' preserved "
             "by each of the seven built-in transitions (closure_* contracts). Initiation of the invariant by the reset functions "
             "belongs to C13.",
        design='5/C08'),
    'C09': dict(
        text="Proof: cell-exact postconditions (which slot changed, to what) for pickndrop, actuate_box, actuate_door, move_agent, "
             "turn_agent, teleport, Grid.swap; for move_obstacles an indexed loop invariant (scenery fixed, floor/obstacle cells "
             "closed, unprocessed obstacles in place, obstacles at most one step from a former obstacle) plus a per-iteration "
             "rule (identity or a swap with a 4-adjacent floor cell). Multiset equality itself (a counting statement) is evaluated "
             "natively only (bounded stand-in, labelled in the evidence).",
        design='5/C09'),
    'C10': dict(
        text="Proof: exact postconditions of actuate_door (only the faced door, only towards open, locked opens iff a key of the "
             "door's colour is held, key not consumed) and actuate_box, and door/box frames of every other built-in transition, "
             "for symbolic grids, poses, held items and actions; door flag lemma (blocking unless open).",
        design='5/C10'),
    'C11': dict(
        text="Proof: random outcomes are universally quantified symbols. teleport: destination is a same-coloured other telepod, "
             "stays otherwise, every partner is a possible outcome (existential over the draw). move_obstacles: per-iteration rule "
             "for every outcome (moves to a 4-neighbour that was floor, stays iff none), every free neighbour is some "
             "next_positions[i] with i in the generator's range, loop invariant as in C09; obstacle count natively only.",
        design='5/C11'),
    'C12': dict(
        text="Proof: exact postcondition, purity and no-draw for every built-in reward and termination component (distance "
             "functions as uninterpreted callables with ghost call traces), reduce_sum / reduce_any / reduce_all over three opaque "
             "parts (same triple, sum / or / and), exit-reward iff exit-termination lemma, and GridWorld.functional_step wiring "
             "(reward and termination evaluated on (state, action, next_state) of the same step). "
             "getting_closer_shortest_path is proved relative to a stubbed dijkstra (each distance is looked up in a table "
             "computed from that state's own layout and object position); dijkstra itself (numpy BFS) is a bounded stand-in "
             "(all layouts up to 3x3 / 4x4) and the shaping sign is also compared natively with an independent BFS.",
        design='5/C12'),
    'C18': dict(
        text="Proof: contracts on the real geometry operators (Orientation/Position/Transform/Area methods, Grid.__mul__, "
             "get_next_position, get_manhattan_boundary) against independent spec functions, plus group/monoid/action/area-image/"
             "grid-rotation lemmas evaluated on the real operators, all for unbounded integer coordinates and symbolic grid "
             "shapes and contents; every obligation is discharged by z3 on each run from the current sources.",
        design='5/C18'),
}

CLAIMS['C19'] = dict(
    category='exploration',
    text="Bounded exhaustive exploration on the real functions (float trigonometry is outside the deductive verifier): every ray "
         "of compute_rays_fancy (and sampled compute_rays) for all areas up to 7x7 (thorough: 10x10, 13x13, 7x13), two "
         "translations, every origin: starts at the origin, stays inside, no repeated cell, 8-adjacent steps, ends on the border, "
         "fan covers the area, cached and uncached results equal in any query order.",
    design='5/C19',
    technique='bounded exhaustive enumeration of the contract on the real functions (stand-in; no contract-based proof possible for float trigonometry)',
    note='bounded: nothing is proved beyond the enumerated areas; numpy/math float semantics as executed')

CLAIMS['C15'] = dict(
    category='exploration',
    text="Exhaustive enumeration on the real code of the finite per-object layer (every non-empty subset of the 9 "
         "state-representable classes / of the 11 classes for observations, every colour subset, every flat object of each "
         "space, three representations): each channel within the declared bounds; array level sampled on 3x4 / 3x5 grids "
         "(declared Space and advertised gym space contain convert()). Proved on the side: StateSpace / ObservationSpace "
         "membership predicates, ObservationSpace view area and anchor, outer_space_to_gym_space (same bounds, dtype by "
         "space type), and - for grids of any shape - the array level of convert(): normalised agent pose inside [-1, 1] with "
         "a one-hot heading, agent marker, item = encoder(held object), grid entry (y, x) = encoder(object in that cell) for "
         "an arbitrary per-object encoder; the default and no-overlap per-object encoders stay inside the bounds handed to "
         "Space.make_categorical_space for every subset of classes / colours and every member object; Dict*Representation "
         "composes its parts by key (only the debug membership check raises); the factories assemble the named encoder for grid "
         "and item alike. Not proved: the compact encoder's index maps and the Space objects / tiled bounds arrays (numpy dtypes).",
    design='5/C15',
    technique='exhaustive finite enumeration of the per-object encoders on the real functions + contracts on the space predicates',
    note='per-object layer: exhaustive native enumeration (closed world of the registered classes); array level proved for an uninterpreted encoder; space bounds arrays sampled')
CLAIMS['C16'] = dict(
    category='exploration',
    text="Exhaustive enumeration on the real code of the per-object encoders of every space (as in C15): equal encodings iff "
         "equal objects, default = (type, status, colour) index triple, no-overlap channels pairwise disjoint, compact values "
         "consecutive from zero; state/observation-level faithfulness sampled with single-change variants on 3x4 / 3x5 grids. "
         "Proved for grids of any shape: entry (y, x) is the same encoder applied to the object in that cell, the agent marker "
         "is 1 exactly at the agent's cell, item = encoder(held object), pose entries determine position and heading; "
         "the default encoding is the index triple and the no-overlap channels lie in pairwise disjoint ranges fixed by the space, for "
         "every subset of classes / colours; GridObject / Agent / Grid / State equality is structural and equal values hash alike. Known finding (D8): observation representations do not encode the agent's orientation.",
    design='5/C16',
    technique='exhaustive finite enumeration of the per-object encoders on the real functions + eq/hash lemma',
    note='bounded at the array level; one known finding listed in known_findings.txt')
CLAIMS['C20'] = dict(
    text="Proof: contracts on GymEnvironment.__init__/reset/step/set_*_representation, GymStateWrapper.reset/step and "
         "outer_space_to_gym_space with the outer environment, representations and gym spaces as opaque stubs with ghost call "
         "traces: index i executes the i-th action, the observation is read after reset/step (so, with C04, it is that of the "
         "post state), reward/done passed through, the wrapper returns the post-step state and forwards the observation in "
         "info, representation and advertised space change together, one Box per key with the declared bounds; "
         "ActionSpace.int_to_action/action_to_int/contains. Containment in the spaces is C15; gym.Env / gym.Wrapper / "
         "gym.spaces are modelled by small stubs (trusted).",
    design='5/C20')

NOT_APPLICABLE = {
    'C14': "existence of a winning action sequence is reachability over unbounded random layouts; no per-call contract decides it (DESIGN.md section 5, C14)",
    'C17': "depends on PyYAML (absent in the sandbox), the schema library and inspect reflection; outside contract reach (DESIGN.md section 5, C17)",
}

PENDING = "contracts for this property are still being brought under the verifier; not claimed yet (DESIGN.md section 10)"

ALL = ['C%02d' % i for i in range(1, 21)]


def main():
    checks = []
    for pid, c in sorted(CLAIMS.items()):
        checks.append({
            'property_id': pid,
            'quick_cmd': f'./check {pid} --tier quick',
            'thorough_cmd': f'./check {pid} --tier thorough',
            'evidence_file': f'/verif/evidence/{pid}.json',
            'replay_cmd_template': './check --replay {path}',
            'engine': 'pyvc',
            'level_claimed': {'category': c.get('category', 'proof'), 'text': c['text'], 'design_ref': c['design']},
            'level_note': c.get('note', NOTE),
            'technique': c.get('technique', 'contract-based deductive verification: sidecar contracts on the real functions, '
                                            'VCs generated from the Python AST by symbolic execution, discharged by z3; '
                                            'counterexamples replayed natively'),
        })
    na = []
    for pid in ALL:
        if pid in CLAIMS:
            continue
        na.append({'property_id': pid, 'reason': NOT_APPLICABLE.get(pid, PENDING)})
    m = {
        'version': 1,
        'setup_cmd': './check --selfcheck',
        'hooks': {
            'guard': 'GYM_GRIDVERSE_VERIF',
            'enable': 'no hooks: the verifier parses /repo sources with ast and never edits them (guard reserved, unused)',
            'baseline_off_cmd': BASE_OFF,
            'source_commits': [],
            'add_only': True,
        },
        'engines': [{'name': 'pyvc', 'path': '/verif/pyvc', 'serves_properties': sorted(CLAIMS),
                     'kind_free_text': 'self-built VC generator / symbolic executor over the Python ast of /repo with sidecar '
                                       'contracts (contracts/*.py), z3 back end, native replay under /venv/bin/python'}],
        'checks': checks,
        'notes': 'fix: commits in /repo are listed in known_findings.txt; see DESIGN.md',
        'not_applicable': na,
    }
    json.dump(m, open(os.path.join(VERIF, 'MANIFEST.json'), 'w'), indent=1)
    print('claimed:', sorted(CLAIMS), 'not claimed:', [x['property_id'] for x in na])


if __name__ == '__main__':
    main()
