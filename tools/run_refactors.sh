#!/bin/sh
# Regression over /verif/selftest/refactors/*.diff (behaviour-preserving changes): each is applied to a scratch copy of
# /repo's package (PYVC_REPO) and every check is run there; a VIOLATION or CHECKER-ERROR line is a defect of the checks
# (exit 1); UNDECIDED lines are listed: they are not alarms, but proofs lost to the refactoring.  /repo is not touched.
cd "$(dirname "$0")/.." || exit 3
fail=0
for f in selftest/refactors/*.diff; do
  id=$(basename "$f" .diff)
  D=$(mktemp -d /tmp/refactor.XXXXXX)
  cp -r /repo/gym_gridverse "$D/"
  if ! (cd "$D" && patch -s -p1 < "/verif/$f"); then echo "$id PATCH-DOES-NOT-APPLY"; rm -rf "$D"; fail=1; continue; fi
  out=$(PYVC_EVIDENCE_DIR="$D/evidence" PYVC_REPO="$D" ./check all 2>&1)
  bad=$(echo "$out" | grep -E '^(VIOLATION|CHECKER-ERROR)' | cut -c1-220)
  und=$(echo "$out" | grep -E '^UNDECIDED' | cut -c1-160 | sort -u)
  if [ -n "$bad" ]; then echo "$id ALARM"; echo "$bad"; fail=1
  elif [ -n "$und" ]; then echo "$id no alarm, but not everything decided:"; echo "$und"
  else echo "$id quiet"; fi
  rm -rf "$D"
done
exit $fail
