#!/usr/bin/env python3
"""Run the repository's baseline test command and compare with BASELINE.json stable_pass."""
import json, subprocess, sys, tempfile, xml.etree.ElementTree as ET, os
base = json.load(open('/root/.vp/BASELINE.json'))
tmp = tempfile.mktemp(suffix='.xml')
cmd = base['cmd'].replace('<file>', tmp)
subprocess.run(cmd, shell=True, stdout=subprocess.DEVNULL, stderr=subprocess.DEVNULL)
passed = set()
for tc in ET.parse(tmp).getroot().iter('testcase'):
    if not any(ch.tag in ('failure', 'error', 'skipped') for ch in tc):
        passed.add(f"{tc.get('classname')}::{tc.get('name')}")
os.remove(tmp)
want = set(base['stable_pass'])
missing = sorted(want - passed)
print(f'stable_pass={len(want)} passed_now={len(passed)} missing={len(missing)}')
for m in missing[:20]:
    print('  MISSING', m)
sys.exit(1 if missing else 0)
