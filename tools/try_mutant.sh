#!/bin/sh
# usage: try_mutant.sh <prop> <file relative to repo> <sed expression>   (scratch copy, removed afterwards)
set -e
D=$(mktemp -d /tmp/mutant.XXXXXX)
cp -r /repo/gym_gridverse "$D/"
sed -i "$3" "$D/$2"
if diff -q "$D/$2" "/repo/$2" >/dev/null; then echo "MUTATION DID NOT APPLY"; rm -rf "$D"; exit 2; fi
cd /verif
PYVC_EVIDENCE_DIR="$D/evidence" PYVC_REPO="$D" ./check "$1" 2>&1 | grep -E "VIOLATION|UNDECIDED|CHECKER|discharged" | cut -c1-250
rm -rf "$D"
