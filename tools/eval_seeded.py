#!/usr/bin/env python3
"""Confirm a seeded property-breaking change produced in a scratch worktree and run the checks on it.

usage: eval_seeded.py <worktree dir> <property id> [<seed id>] [--props C01,C08]
 1. demo.py passes on the original tree and fails with the patch (run in the worktree, toggled with git stash)
 2. every BASELINE stable_pass test still passes with the patch (pytest run inside the worktree)
 3. the patch is applied to /repo (git apply), `./check <props>` is run, and /repo is restored
 4. everything is recorded under /verif/seeded/<seed id>/
"""
import json
import os
import shutil
import subprocess
import sys
import tempfile
import xml.etree.ElementTree as ET

VERIF = os.path.dirname(os.path.dirname(os.path.abspath(__file__)))


def sh(cmd, cwd=None, timeout=3600):
    p = subprocess.run(cmd, shell=True, cwd=cwd, capture_output=True, text=True, timeout=timeout)
    return p.returncode, p.stdout + p.stderr


def tests_pass(wt):
    base = json.load(open('/root/.vp/BASELINE.json'))
    tmp = tempfile.mktemp(suffix='.xml')
    sh(f'/venv/bin/python -m pytest -ra -q -p no:cacheprovider --timeout=900 --continue-on-collection-errors --junitxml={tmp}',
       cwd=wt)
    passed = set()
    for tc in ET.parse(tmp).getroot().iter('testcase'):
        if not any(ch.tag in ('failure', 'error', 'skipped') for ch in tc):
            passed.add(f"{tc.get('classname')}::{tc.get('name')}")
    os.remove(tmp)
    missing = sorted(set(base['stable_pass']) - passed)
    return len(passed), missing


def main():
    wt, prop = sys.argv[1], sys.argv[2]
    sid = sys.argv[3] if len(sys.argv) > 3 and not sys.argv[3].startswith('--') else f'{prop}-1'
    props = [prop]
    for a in sys.argv:
        if a.startswith('--props'):
            props = a.split('=', 1)[1].split(',')
    out = os.path.join(VERIF, 'seeded', sid)
    os.makedirs(out, exist_ok=True)
    rec = {'property': prop, 'seed_id': sid, 'ran': []}
    # the patch
    rc, diff = sh('git diff -- gym_gridverse', cwd=wt)
    if not diff.strip():
        print('no change in worktree')
        return 2
    open(os.path.join(out, 'patch.diff'), 'w').write(diff)
    shutil.copy(os.path.join(wt, 'demo.py'), os.path.join(out, 'demo.py'))
    try:
        rec['agent_meta'] = json.load(open(os.path.join(wt, 'meta.json')))
    except Exception as e:
        rec['agent_meta'] = {'error': str(e)}
    # 1. demo with / without
    rc_with, o_with = sh('/venv/bin/python demo.py', cwd=wt, timeout=900)
    # not `git stash`: the stash is shared by all worktrees of a repository (two evaluations collided in round 15)
    sh(f'git apply -R {os.path.join(out, "patch.diff")}', cwd=wt)
    rc_without, o_without = sh('/venv/bin/python demo.py', cwd=wt, timeout=900)
    sh(f'git apply {os.path.join(out, "patch.diff")}', cwd=wt)
    rec['demo_with_patch_rc'] = rc_with
    rec['demo_without_patch_rc'] = rc_without
    rec['demo_with_patch_tail'] = o_with.strip().splitlines()[-3:]
    rec['ran'].append('demo.py in the worktree with the change (expect != 0) and with the change stashed (expect 0)')
    # 2. tests
    npass, missing = tests_pass(wt)
    rec['tests_passing_with_patch'] = npass
    rec['baseline_tests_lost'] = missing[:10]
    rec['ran'].append('baseline pytest command inside the worktree, compared with BASELINE.json stable_pass')
    confirmed = rc_with != 0 and rc_without == 0 and not missing
    rec['confirmed'] = confirmed
    # 3. checks on /repo with the patch applied (or, with --scratch, on a scratch copy of the package: used while
    #    another run needs /repo unchanged)
    if '--scratch' in sys.argv:
        D = tempfile.mkdtemp(prefix='seeded.')
        shutil.copytree('/repo/gym_gridverse', os.path.join(D, 'gym_gridverse'))
        rc, o = sh(f'patch -s -p1 < {os.path.join(out, "patch.diff")}', cwd=D)
        if rc != 0:
            rec['apply_error'] = o[-500:]
        else:
            rc, o = sh(f'PYVC_REPO={D} PYVC_EVIDENCE_DIR={D}/evidence ./check {" ".join(props) if len(props) == 1 else "all"} 2>&1',
                       cwd=VERIF, timeout=7200)
            lines = [l for l in o.splitlines() if l.startswith(('VIOLATION', 'UNDECIDED', 'CHECKER', 'KNOWN')) or 'discharged' in l]
            rec['check_exit'] = rc
            rec['check_lines'] = lines[:40]
            rec['detected'] = any(l.startswith('VIOLATION') for l in lines)
            rec['ran'].append(f'scratch copy of /repo/gym_gridverse + patch.diff; PYVC_REPO=<copy> ./check {props}')
        shutil.rmtree(D, ignore_errors=True)
        rc = 1
    else:
        rc, o = sh(f'git -C /repo apply {os.path.join(out, "patch.diff")}')
    if '--scratch' in sys.argv:
        pass
    elif rc != 0:
        rec['apply_error'] = o[-500:]
    else:
        try:
            # evidence of runs on a patched tree must not overwrite the committed evidence
            rc, o = sh(f'PYVC_EVIDENCE_DIR=/tmp/seeded_evidence ./check {" ".join(props) if len(props) == 1 else "all"} 2>&1',
                       cwd=VERIF, timeout=7200)
            lines = [l for l in o.splitlines() if l.startswith(('VIOLATION', 'UNDECIDED', 'CHECKER', 'KNOWN')) or 'discharged' in l]
            if len(props) > 1:
                lines = [l for l in lines if any(p in l for p in props)]
            rec['check_exit'] = rc
            rec['check_lines'] = lines[:40]
            rec['detected'] = any(l.startswith('VIOLATION') for l in lines)
            rec['ran'].append(f'git -C /repo apply patch.diff; ./check {props}; git -C /repo checkout -- .')
        finally:
            sh('git -C /repo checkout -- .')
    json.dump(rec, open(os.path.join(out, 'meta.json'), 'w'), indent=1)
    print(json.dumps({k: rec[k] for k in ('seed_id', 'confirmed', 'detected', 'demo_with_patch_rc', 'demo_without_patch_rc',
                                          'baseline_tests_lost') if k in rec}))
    for l in rec.get('check_lines', [])[:12]:
        print('   ', l[:200])
    return 0


if __name__ == '__main__':
    sys.exit(main())
