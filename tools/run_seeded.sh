#!/bin/sh
# Regression over /verif/seeded/*: each patch is applied to a scratch copy of /repo's package (PYVC_REPO), the
# check of its property is run there, and the line says whether a VIOLATION was reported.  /repo is not touched.
cd "$(dirname "$0")/.." || exit 3
fail=0
for d in seeded/*/; do
  id=$(basename "$d"); prop=$(echo "$id" | cut -c1-3)
  D=$(mktemp -d /tmp/seeded.XXXXXX)
  cp -r /repo/gym_gridverse "$D/"
  if ! (cd "$D" && patch -s -p1 < "/verif/$d/patch.diff"); then echo "$id PATCH-DOES-NOT-APPLY"; rm -rf "$D"; fail=1; continue; fi
  out=$(PYVC_EVIDENCE_DIR="$D/evidence" PYVC_REPO="$D" ./check "$prop" 2>&1)
  n=$(echo "$out" | grep -c '^VIOLATION')
  if [ "$n" -gt 0 ]; then echo "$id detected ($n violation lines)"; else echo "$id MISSED"; echo "$out" | tail -3; fail=1; fi
  rm -rf "$D"
done
exit $fail
