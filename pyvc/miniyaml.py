"""A tiny YAML-subset reader (PyYAML is absent from the sandbox), sufficient for the shipped
gym-gridverse configuration files: block mappings, block sequences (`- key: value`), flow sequences
`[a, [b, c]]`, plain scalars (int, float, bool, null, strings), comments.  Used only by the bounded
trajectory harness; a wrong parse shows up as a schema error when the environment is built."""
import re


def _scalar(tok):
    t = tok.strip()
    if t == '' or t in ('~', 'null', 'Null', 'NULL'):
        return None
    if t in ('true', 'True', 'TRUE'):
        return True
    if t in ('false', 'False', 'FALSE'):
        return False
    if (t[0] == t[-1]) and t[0] in ('"', "'") and len(t) >= 2:
        return t[1:-1]
    if re.fullmatch(r'[-+]?\d+', t):
        return int(t)
    if re.fullmatch(r'[-+]?(\d+\.\d*|\.\d+|\d+)([eE][-+]?\d+)?', t):
        return float(t)
    return t


def _flow(s, i=0):
    """parse a flow value starting at s[i]; returns (value, next index)"""
    while i < len(s) and s[i] == ' ':
        i += 1
    if i < len(s) and s[i] == '[':
        out = []
        i += 1
        while True:
            while i < len(s) and s[i] in ' ,':
                i += 1
            if i >= len(s):
                raise ValueError('unterminated flow sequence')
            if s[i] == ']':
                return out, i + 1
            v, i = _flow(s, i)
            out.append(v)
    j = i
    while j < len(s) and s[j] not in ',]':
        j += 1
    return _scalar(s[i:j]), j


def _value(text):
    text = text.strip()
    if text.startswith('['):
        v, _ = _flow(text)
        return v
    return _scalar(text)


def _strip_comment(line):
    out = []
    q = None
    for ch in line:
        if q:
            if ch == q:
                q = None
        elif ch in ('"', "'"):
            q = ch
        elif ch == '#':
            break
        out.append(ch)
    return ''.join(out).rstrip()


def loads(text):
    lines = []
    for raw in text.splitlines():
        ln = _strip_comment(raw)
        if ln.strip() in ('', '---'):
            continue
        lines.append((len(ln) - len(ln.lstrip(' ')), ln.strip()))
    pos = [0]

    def block(indent):
        if pos[0] >= len(lines):
            return None
        ind, txt = lines[pos[0]]
        if txt.startswith('- ') or txt == '-':
            out = []
            while pos[0] < len(lines) and lines[pos[0]][0] == ind and (lines[pos[0]][1].startswith('- ') or lines[pos[0]][1] == '-'):
                item = lines[pos[0]][1][1:].strip()
                if item == '':
                    pos[0] += 1
                    out.append(block(ind + 1))
                elif re.match(r'^[^\[\s][^:]*:(\s|$)', item):
                    # "- key: value" starts a mapping whose keys are indented by two
                    lines[pos[0]] = (ind + 2, item)
                    out.append(block(ind + 2))
                else:
                    pos[0] += 1
                    out.append(_value(item))
            return out
        out = {}
        while pos[0] < len(lines) and lines[pos[0]][0] == ind and not lines[pos[0]][1].startswith('- '):
            m = re.match(r'^([^:]+):(.*)$', lines[pos[0]][1])
            if not m:
                raise ValueError(f'cannot parse line: {lines[pos[0]][1]}')
            key, rest = m.group(1).strip(), m.group(2).strip()
            pos[0] += 1
            if rest == '':
                if pos[0] < len(lines) and lines[pos[0]][0] > ind:
                    out[key] = block(lines[pos[0]][0])
                elif pos[0] < len(lines) and lines[pos[0]][0] == ind and lines[pos[0]][1].startswith('- '):
                    out[key] = block(ind)
                else:
                    out[key] = None
            else:
                out[key] = _value(rest)
        return out

    return block(lines[0][0]) if lines else None
