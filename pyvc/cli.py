"""./check entry point: run the obligations of one property, replay failures
natively, print VIOLATION / KNOWN-FINDING lines, write evidence."""
from __future__ import annotations

import argparse
import glob
import hashlib
import json
import multiprocessing as mp
import os
import subprocess
import sys
import time
import traceback

VERIF = os.path.dirname(os.path.dirname(os.path.abspath(__file__)))
REPO = os.environ.get('PYVC_REPO', '/repo')
NATIVE_PY = '/venv/bin/python'

TRUSTED_BASE = [
    'T1 pyvc: the symbolic semantics of the Python subset (guarded by the native cross-check and mutation self-test)',
    'T2 z3 5.1.0 (second back end cvc5 / z3 4.8.12 in the thorough tier)',
    'T3 library models in pyvc/lib.py (list/tuple/dict/range/zip/enum/dataclass, numpy zeros/ones/indexing, linspace(dtype=int) for at most 6 samples (compared with numpy by the setup command), numpy Generator.choice/integers/random/shuffle as any in-range outcome / any permutation, more_itertools.one/pairwise, functools.partial/lru_cache, pickle round trip = deep copy of instance dictionaries, hash = uninterpreted function of the hashed value, math.sqrt = real square root, gym<=0.21 Env/Wrapper/spaces/seeding stubs)',
    'T4 closed world: the eleven built-in GridObject classes registered in grid_object.py',
    'T5 ownership: no GridObject instance is reachable twice from one state (cell references write through)',
    'T6 partial correctness: termination / recursion depth / memory are not verified',
    'T7 floats are treated as mathematical reals',
]


def contract_modules():
    out = []
    for p in sorted(glob.glob(os.path.join(VERIF, 'contracts', '*.py'))):
        n = os.path.basename(p)[:-3]
        if n in ('__init__', 'spec'):
            continue
        out.append('contracts.' + n)
    return out


# bounded stand-ins per property (pyvc/bounded.py); C19 is decided by its bounded item alone
BOUNDED = {'C19': ['rays'], 'C06': ['occlusion', 'rays'], 'C12': ['dijkstra', 'trajectories'],
           'C01': ['dijkstra', 'trajectories'], 'C02': ['trajectories', 'env_histories'],
           'C04': ['trajectories', 'env_histories'], 'C08': ['trajectories'],
           'C09': ['trajectories'], 'C10': ['trajectories'], 'C20': ['trajectories', 'env_histories'],
           'C15': ['representations', 'trajectories'], 'C16': ['representations']}
_BOUNDED_CACHE = {}

# properties whose deciding part is a bounded enumeration (a few helper lemmas are proved on the side)
EXPLORATION_LEVEL = {'C15', 'C16', 'C19'}

_V = None


def _init_worker(repo):
    global _V
    if _V is not None:
        return
    sys.setrecursionlimit(20000)
    from .verify import Verifier
    _V = Verifier(repo=repo, verif=VERIF)
    for m in contract_modules():
        _V.load_contracts(m)


def _work(idx):
    from .core import STATS
    V = _V
    spec = V.contracts[idx]
    V.results = {}
    V.covers = {}
    V.unsupported = {}
    V.backends = {}
    c0, s0 = STATS.checks, STATS.solver_s
    t0 = time.time()
    try:
        if spec.opts.get('bounded'):
            V.unsupported[spec.name] = 'bounded by design: the function is outside the symbolic verifier (declared in the contract)'
        else:
            V.verify(spec)
    except Exception as e:  # engine crash on this contract: report, never a verdict
        V.unsupported[spec.name] = f'engine error: {type(e).__name__}: {e}\n{traceback.format_exc()[-1500:]}'
        V.results = {}
    return {
        'name': spec.name, 'module': spec.fn.module.name, 'target': spec.target, 'props': list(spec.props),
        'kind': spec.kind,
        'obligations': [dict(o.as_dict(), cex=o.cex) for o in V.results.values()],
        'cover': V.covers.get(spec.name), 'unsupported': V.unsupported.get(spec.name),
        'native_only': sorted(V.native_only.get(spec.name, [])),
        'bounded_by_design': bool(spec.opts.get('bounded')),
        'backends': dict(V.backends),
        'solver_checks': STATS.checks - c0, 'solver_s': round(STATS.solver_s - s0, 3),
        'wall_s': round(time.time() - t0, 3),
    }


def list_contracts(repo):
    _init_worker(repo)
    return [(i, c.name, c.fn.module.name, c.target, list(c.props), c.kind) for i, c in enumerate(_V.contracts)]


def run_bounded(item, tier, seed):
    key = (item, tier, seed)
    if key not in _BOUNDED_CACHE:
        _BOUNDED_CACHE[key] = _run_bounded(item, tier, seed)
    return _BOUNDED_CACHE[key]


def _run_bounded(item, tier, seed):
    env = dict(os.environ)
    env['PYVC_REPO'] = REPO
    env.pop('PYTHONPATH', None)
    p = subprocess.run([NATIVE_PY, os.path.join(VERIF, 'pyvc', 'bounded.py'), item, tier, str(seed)],
                       capture_output=True, text=True, timeout=7200, env=env, cwd=VERIF)
    lines = [l for l in p.stdout.strip().splitlines() if l.startswith('{')]
    if not lines:
        raise RuntimeError(f'bounded harness failed: {p.stderr[-2000:]}')
    return json.loads(lines[-1])


def native(cmd, timeout=600):
    env = dict(os.environ)
    env['PYVC_REPO'] = REPO
    env.pop('PYTHONPATH', None)
    p = subprocess.run([NATIVE_PY, os.path.join(VERIF, 'pyvc', 'native.py')] + cmd, capture_output=True, text=True,
                       timeout=timeout, env=env, cwd=VERIF)
    lines = [l for l in p.stdout.strip().splitlines() if l.startswith('{')]
    if not lines:
        raise RuntimeError(f'native harness failed: {p.stderr[-2000:]}')
    return json.loads(lines[-1])


def load_known():
    path = os.path.join(VERIF, 'known_findings.txt')
    findings, fixed = [], []
    if os.path.exists(path):
        for line in open(path):
            line = line.strip()
            if line.startswith('finding:'):
                d = dict(kv.split('=', 1) for kv in line[len('finding:'):].split('|')[0].split() if '=' in kv)
                d['text'] = line.split('|', 1)[1].strip() if '|' in line else ''
                findings.append(d)
            elif line.startswith('fixed:'):
                fixed.append(line)
    return findings, fixed


def source_hashes(targets):
    import ast
    out = {}
    for t in sorted(set(x for x in targets if x)):
        mod, qual = t.split(':')
        path = os.path.join(REPO, *mod.split('.')) + '.py'
        try:
            tree = ast.parse(open(path).read())
            node = None
            body = tree.body
            for part in qual.split('.'):
                node = next(n for n in body if getattr(n, 'name', None) == part)
                body = getattr(node, 'body', [])
            out[t] = hashlib.sha256(ast.dump(node).encode()).hexdigest()[:16]
        except Exception:
            out[t] = 'unresolved'
    return out


def main(argv=None):
    ap = argparse.ArgumentParser()
    ap.add_argument('prop', nargs='?')
    ap.add_argument('--tier', default=os.environ.get('VERIF_TIER', 'quick'))
    ap.add_argument('--replay')
    ap.add_argument('--update-ledger', action='store_true')
    ap.add_argument('--jobs', type=int, default=int(os.environ.get('VERIF_JOBS', '16')))
    ap.add_argument('--only', nargs='*')
    ap.add_argument('--list', action='store_true')
    ap.add_argument('--selfcheck', action='store_true')
    a = ap.parse_args(argv)
    if a.selfcheck:
        return selfcheck()
    seed = int(os.environ.get('VERIF_SEED', '0') or 0)
    os.environ['PYVC_TIER'] = a.tier
    if a.replay:
        res = native(['replay', a.replay])
        print(json.dumps(res, indent=1))
        bad = [c for c in res.get('clauses', []) if not c[1]]
        return 1 if bad else 0
    t_start = time.time()
    try:
        contracts = list_contracts(REPO)
    except Exception as e:
        print(f'CHECKER-ERROR loading contracts: {type(e).__name__}: {e}')
        traceback.print_exc()
        return 3
    if a.list:
        for c in contracts:
            print(c)
        return 0
    ledger_path = os.path.join(VERIF, 'contracts', 'ledger.json')
    ledger = json.load(open(ledger_path)) if os.path.exists(ledger_path) else {}
    props = [a.prop] if a.prop and a.prop != 'all' else sorted({p for c in contracts for p in c[4]})
    if a.prop and a.prop != 'all':
        props = [a.prop]
    else:
        props = sorted(set(props) | set(BOUNDED))
    sel = [c for c in contracts if set(c[4]) & set(props) and (not a.only or c[1] in a.only)]
    if not sel and not any(p in BOUNDED for p in props):
        print(f'CHECKER-ERROR no contracts for {props}')
        return 3
    results = []
    if sel:
        with mp.Pool(min(a.jobs, len(sel)), initializer=_init_worker, initargs=(REPO,), maxtasksperchild=1) as pool:
            results = pool.map(_work, [c[0] for c in sel], chunksize=1)
    if a.update_ledger:
        led = dict(ledger) if a.prop and a.prop != 'all' else {}
        for p in props:
            ids = sorted({o['id'] for r in results if p in r['props'] for o in r['obligations']})
            led[p] = ids
        json.dump(led, open(ledger_path, 'w'), indent=1, sort_keys=True)
        print('ledger updated:', {p: len(v) for p, v in led.items()})
        ledger = led
    rc = 0
    for p in props:
        rc = max(rc, report(p, [r for r in results if p in r['props']], {} if a.only else ledger, a.tier, seed, t_start,
                            only_mode=bool(a.only)))
    return rc


def report(prop, results, ledger, tier, seed, t_start, only_mode=False):
    findings, _ = load_known()
    os.makedirs(os.path.join(VERIF, 'replays'), exist_ok=True)
    ev_dir = os.environ.get('PYVC_EVIDENCE_DIR') or os.path.join(VERIF, 'evidence')
    os.makedirs(ev_dir, exist_ok=True)
    lines = []
    violations = 0
    undecided = []
    obligations = []
    unsupported = {}
    for r in results:
        if r['unsupported']:
            unsupported[r['name']] = r['unsupported']
        for o in r['obligations']:
            o = dict(o, contract=r['name'], module=r['module'], target=r['target'])
            obligations.append(o)
    expected = set(ledger.get(prop, []))
    got = {o['id'] for o in obligations}
    missing = sorted(expected - got)
    missing_by_unsupported = [m for m in missing if m.split('/')[0].split('.', 1)[-1] in unsupported]
    hard_missing = [m for m in missing if m not in missing_by_unsupported]
    # a loop that now runs under another (equally worded) invariant of its module keeps its obligations under that
    # invariant's name: a missing `contract/loop:<invariant>.<rule>` is matched by a discharged
    # `contract/loop:<other invariant>.<rule>` of the same contract and rule
    def loop_key(oid):
        c, _, clause = oid.partition('/')
        if not clause.startswith('loop:') or '.' not in clause:
            return None
        return c, clause.split('.', 1)[1]
    have = {loop_key(o['id']) for o in obligations if o['status'] == 'discharged' and loop_key(o['id'])}
    hard_missing = [m for m in hard_missing if not (loop_key(m) and loop_key(m) in have)]
    # 1. failed / unknown obligations
    for o in obligations:
        if o['status'] == 'discharged':
            continue
        rp_path = os.path.join(VERIF, 'replays', f"{prop}-{o['id'].replace('/', '-')}.json")
        rp = {'property': prop, 'obligation': o['id'], 'module': o['module'], 'contract': o['contract'],
              'clause': o['id'].split('/', 1)[1], 'target': o['target'], 'verdict': o['status'],
              'backend': o['backend'], 'solver_output': o['detail'],
              'inputs': (o.get('cex') or {}).get('inputs', {})}
        confirmed = False
        native_res = None
        if o['status'] == 'failed' and rp['inputs'] and not any(
                isinstance(v, dict) and 'unextractable' in v for v in rp['inputs'].values()):
            json.dump(rp, open(rp_path, 'w'), indent=1)
            try:
                native_res = native(['replay', rp_path])
                bad = [c for c in native_res.get('clauses', []) if not c[1]]
                confirmed = bool(bad) and native_res.get('pre_ok', True)
            except Exception as e:
                native_res = {'error': str(e)}
        if not confirmed:
            # search natively for a failing input of this contract
            try:
                cc = native(['crosscheck', o['module'], '400' if tier == 'quick' else '4000', str(seed), o['contract']])
                st = cc.get(o['contract'], {})
                for f in st.get('failures', []):
                    if any(c[0] == rp['clause'] for c in f['clauses']):
                        rp['inputs'] = f['inputs']
                        rp['found_by'] = 'native search'
                        confirmed = True
                        break
            except Exception as e:
                rp['native_search_error'] = str(e)
        rp['native'] = native_res
        json.dump(rp, open(rp_path, 'w'), indent=1)
        kf = match_known(findings, prop, o['id'], rp)
        if kf is not None:
            lines.append(f"KNOWN-FINDING: property={prop} {o['id']}: {kf.get('text', '')}")
            continue
        # did the native replay evaluate this very clause on the extracted input and find it true?
        clause_passed_natively = bool(native_res) and native_res.get('pre_ok') and any(
            c[0] == rp['clause'] and c[1] for c in native_res.get('clauses', []))
        if confirmed:
            lines.append(f'VIOLATION property={prop} replay={rp_path}')
            violations += 1
        elif o['status'] == 'failed' and clause_passed_natively:
            # the model's counterexample does not reproduce on the real code: engine/model gap, not a verdict
            undecided.append({'obligation': o['id'], 'reason': 'symbolic counterexample not reproduced natively'})
            lines.append(f"UNDECIDED obligation={o['id']} reason=counterexample-not-reproduced replay={rp_path}")
        elif o['id'] in expected:
            # an obligation that is discharged on the committed tree can no longer be discharged
            lines.append(f'VIOLATION property={prop} replay={rp_path} no-failing-input-found')
            violations += 1
        else:
            undecided.append({'obligation': o['id'], 'reason': f"{o['status']} (never discharged before)"})
            lines.append(f"UNDECIDED obligation={o['id']} reason={o['status']}-not-in-ledger")
    # 2. unsupported contracts: bounded native stand-in
    bounded = []
    for name, why in unsupported.items():
        r = next(x for x in results if x['name'] == name)
        try:
            # contracts that fell outside the verifier by accident (a changed tree) get a longer native search than
            # the ones that are bounded by design and evaluated on every run
            n_search = ('600' if tier == 'quick' else '4000') if r.get('bounded_by_design') else ('1500' if tier == 'quick' else '6000')
            cc = native(['crosscheck', r['module'], n_search, str(seed), name], timeout=3600)
            st = cc.get(name, {})
            bounded.append({'what': name, 'why_not_proved': why[:300], 'evaluations': st.get('pre_ok', 0),
                            'failures': len(st.get('failures', []))})
            for f in st.get('failures', [])[:1]:
                clause = f['clauses'][0][0]
                oid = f"{r['module'].split('.')[-1]}.{name}/{clause}"
                rp_path = os.path.join(VERIF, 'replays', f"{prop}-{oid.replace('/', '-')}.json")
                rp = {'property': prop, 'obligation': oid, 'module': r['module'], 'contract': name, 'clause': clause,
                      'target': r['target'], 'verdict': 'native-bounded', 'inputs': f['inputs'],
                      'solver_output': 'function outside the verifier subset: ' + why[:300]}
                json.dump(rp, open(rp_path, 'w'), indent=1)
                kf = match_known(findings, prop, oid, rp)
                if kf is not None:
                    lines.append(f"KNOWN-FINDING: property={prop} {oid}: {kf.get('text', '')}")
                else:
                    lines.append(f'VIOLATION property={prop} replay={rp_path}')
                    violations += 1
        except Exception as e:
            bounded.append({'what': name, 'why_not_proved': why[:300], 'error': str(e)[:300]})
        if r.get('bounded_by_design'):
            lines.append(f'BOUNDED contract={name}: evaluated natively only ({bounded[-1].get("evaluations", 0)} inputs)')
        else:
            lines.append(f'UNDECIDED contract={name} reason=unsupported: {why.splitlines()[0][:200]}')
            undecided.append({'contract': name, 'reason': why[:300]})
    # 3. native cross-check of every contract of this property on random concrete inputs
    xc = {'contracts': 0, 'inputs': 0, 'failures': 0, 'disagreements': []}
    checker_error_native = None
    n_native = {'quick': 40, 'thorough': 1500}.get(tier, 40)
    reported = {l.split('replay=')[1].split()[0] for l in lines if 'replay=' in l}
    bymod = {}
    for r in results:
        if r['name'] not in unsupported:
            bymod.setdefault(r['module'], []).append(r)
    for mod, rs in sorted(bymod.items()):
        try:
            cc = native(['crosscheck', mod, str(n_native), str(seed)] + [r['name'] for r in rs], timeout=3600)
        except Exception as e:
            xc['error'] = str(e)[-500:]
            checker_error_native = str(e)[-300:]
            continue
        for r in rs:
            st = cc.get(r['name'])
            if st is None:
                continue
            xc['contracts'] += 1
            xc['inputs'] += st.get('pre_ok', 0)
            for f in st.get('failures', [])[:1]:
                clause = f['clauses'][0][0]
                oid = f"{r['module'].split('.')[-1]}.{r['name']}/{clause}"
                rp_path = os.path.join(VERIF, 'replays', f"{prop}-{oid.replace('/', '-')}.json")
                xc['failures'] += 1
                if rp_path in reported:
                    continue
                sym = next((o for o in obligations if o['id'] == oid), None)
                if sym is not None and sym['status'] == 'discharged':
                    xc['disagreements'].append(oid)
                rp = {'property': prop, 'obligation': oid, 'module': mod, 'contract': r['name'], 'clause': clause,
                      'target': r['target'], 'verdict': 'native-crosscheck', 'inputs': f['inputs'],
                      'solver_output': 'found by the native cross-check (real code, executable contract)'}
                json.dump(rp, open(rp_path, 'w'), indent=1)
                kf = match_known(findings, prop, oid, rp)
                if kf is not None:
                    lines.append(f"KNOWN-FINDING: property={prop} {oid}: {kf.get('text', '')}")
                else:
                    lines.append(f'VIOLATION property={prop} replay={rp_path}')
                    violations += 1
    # 4. bounded stand-ins of this property
    bounded_runs = []
    checker_error = None
    for item in ([] if only_mode else BOUNDED.get(prop, [])):
        try:
            br = run_bounded(item, tier if tier in ('quick', 'thorough') else 'quick', seed)
        except Exception as e:
            checker_error = f'bounded item {item}: {str(e)[-300:]}'
            continue
        bounded_runs.append(br)
        bounded.append({'what': br['what'], 'bound': br['bound'], 'evaluations': br['evaluations'],
                        'failures': len(br['failures']), 'exhaustive': br.get('exhaustive', False)})
        seen_what = set()
        for k, f in enumerate(br['failures']):
            if f.get('prop') and f['prop'] != prop:
                continue   # this failing case belongs to another property served by the same enumeration
            if f.get('what') in seen_what:
                continue
            seen_what.add(f.get('what'))
            oid = f'bounded.{item}/{f.get("what", "failure").replace(" ", "-")[:60]}'
            rp_path = os.path.join(VERIF, 'replays', f"{prop}-{oid.replace('/', '-')}.json")
            json.dump({'property': prop, 'obligation': oid, 'verdict': 'bounded-enumeration', 'inputs': f,
                       'solver_output': 'failing case of the bounded native check ' + br['what']}, open(rp_path, 'w'), indent=1)
            kf = match_known(findings, prop, oid, None)
            if kf is not None:
                lines.append(f"KNOWN-FINDING: property={prop} {oid}: {kf.get('text', '')}")
            else:
                lines.append(f'VIOLATION property={prop} replay={rp_path}')
                violations += 1
    n_ob = len(obligations)
    n_dis = sum(1 for o in obligations if o['status'] == 'discharged')
    if n_ob == 0 and not unsupported and not bounded_runs:
        checker_error = 'zero obligations generated'
    if hard_missing:
        checker_error = f'obligations in ledger but not generated: {hard_missing[:5]}'
    if checker_error_native and not checker_error:
        checker_error = f'native cross-check harness failed: {checker_error_native}'
    covers = {r['name']: r['cover'] for r in results if r['cover']}
    ev = {
        'property_id': prop, 'tier': tier if tier in ('quick', 'thorough') else 'quick', 'seed': seed,
        'level': 'proof' if not undecided and not checker_error else 'other',
        'coverage': {
            'obligations': n_ob, 'discharged': n_dis,
            'checker_cmd': f'./check {prop} --tier {tier}',
            'trusted_base': TRUSTED_BASE,
            'explanation': ('every obligation generated from the current /repo sources was discharged by z3'
                            if not undecided else 'some functions fell outside the verifier subset or were undecided; '
                            'see undecided / bounded_standins'),
            'by_backend': merge_backends(results, n_dis),
            'solver_s': round(sum(r['solver_s'] for r in results), 3),
            'solver_checks': sum(r['solver_checks'] for r in results),
            'functions_under_contract': source_hashes([r['target'] for r in results]),
            'contracts': {r['name']: {'target': r['target'], 'kind': r['kind'], 'paths': (r['cover'] or {}).get('paths'),
                                      'feasible_post': (r['cover'] or {}).get('feasible_post'), 'wall_s': r['wall_s']}
                          for r in results},
            'cover_checks': sum((c or {}).get('feasible_post', 0) for c in covers.values()),
            'bounded_standins': bounded + [
                {'what': f"{r['name']}/{c}", 'why_not_proved': 'clause evaluated natively only (ensures_native)',
                 'evaluations': n_native} for r in results for c in r.get('native_only', [])],
            'crosscheck': xc,
            'undecided': undecided,
            'samples': [{'id': o['id'], 'status': o['status'], 'paths': o['paths'], 'time_s': o['time_s']}
                        for o in obligations[:8]],
            'failed': [o['id'] for o in obligations if o['status'] != 'discharged'],
        },
        'assumptions': TRUSTED_BASE,
        'wall_s': round(time.time() - t_start, 3),
        'violations': violations,
    }
    if (n_ob == 0 or prop in EXPLORATION_LEVEL) and bounded_runs:
        ev['level'] = 'exploration'
        ev['coverage'].update({
            'evaluations': sum(b['evaluations'] for b in bounded_runs),
            'distinct_nontrivial': sum(b['distinct_nontrivial'] for b in bounded_runs),
            'rule': '; '.join(b['what'] + ' -- ' + b['bound'] for b in bounded_runs)
                    + '; non-trivial = distinct (area, origin, ray) with more than one cell',
            'samples': [x for b in bounded_runs for x in b['samples']],
            'exhaustive': all(b.get('exhaustive') for b in bounded_runs),
            'explanation': 'bounded exhaustive enumeration on the real functions (no deductive part: float trigonometry)',
        })
        if n_ob == 0:
            for k_ in ('obligations', 'discharged'):
                ev['coverage'].pop(k_, None)
    json.dump(ev, open(os.path.join(ev_dir, f'{prop}.json'), 'w'), indent=1)
    for l in lines:
        print(l)
    print(f'{prop}: {n_dis}/{n_ob} obligations discharged, {violations} violations, '
          f'{len(undecided)} undecided, contracts={len(results)}, wall={ev["wall_s"]}s')
    if checker_error:
        print(f'CHECKER-ERROR {prop}: {checker_error}')
        return 3
    return 1 if violations else 0


def selfcheck():
    """setup_cmd: nothing to build (pure Python); check both interpreters and the contract loader"""
    import z3
    print('z3', z3.get_version_string())
    r = native(['crosscheck', 'contracts.geometry', '5', '0', 'position_add'])
    assert r['position_add']['pre_ok'] == 5 and not r['position_add']['failures'], r
    cs = list_contracts(REPO)
    print('contracts loaded:', len(cs))
    print('library models compared with numpy:', libmodels_selfcheck())
    os.makedirs(os.path.join(VERIF, 'evidence'), exist_ok=True)
    os.makedirs(os.path.join(VERIF, 'replays'), exist_ok=True)
    return 0


def libmodels_selfcheck():
    """Differential check of the arithmetic library models (pyvc/libmodels.py, trusted base T3) against the numpy
    the repository runs with; a disagreement is an engine defect and aborts the setup command."""
    r = native(['libmodels'])
    assert r.get('linspace_comparisons', 0) > 1000, r
    return r


def merge_backends(results, n_dis):
    """solver calls that refuted a negated goal, by back end (an obligation checked on several paths counts
    once per path); cvc5-* entries are the thorough tier's second opinion on quantifier-free conditions"""
    out = {'obligations-discharged': n_dis}
    for r in results:
        for k, v in (r.get('backends') or {}).items():
            out[k] = out.get(k, 0) + v
    return out


def match_known(findings, prop, oid, rp):
    for f in findings:
        if f.get('property') == prop and f.get('obligation') == oid:
            return f
    return None


if __name__ == '__main__':
    sys.exit(main())
