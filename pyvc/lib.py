"""Library models: builtins, stub modules (enum, itertools, numpy, rng, ...).
Every model here is part of the trusted base (DESIGN T3)."""
from __future__ import annotations

import ast
import z3

from .core import (EXC, NOTIMPL, EnumVal, ExcClass, ExcVal, Gen, Instance, Opaque,
                   PathEnd, PyRaise, Rng, RowView, SArr, SClass, SList, SObj, SSet,
                   SymCallable, Unsupported, concretize, is_boollike, is_intlike,
                   is_numlike, is_sym_bool, is_sym_int, is_sym_real, is_z3, py_raise,
                   zbool, zint, zreal)
from .model import (BoundMethod, Builtin, ClassMethod, ClassModel, Env, FunctionModel,
                    ModuleModel, Partial, PropertyModel, StaticMethod)
from .libmodels import LINSPACE_MAX_NUM, linspace_int
from .seqs import CSet, GenList, Part, SRange

PRELUDE = '''
class UserList:
    def __init__(self, initlist=None):
        self.data = []
        if initlist is not None:
            self.data = list(initlist)
    def append(self, item):
        self.data.append(item)
    def index(self, item):
        return self.data.index(item)
    def __len__(self):
        return len(self.data)
    def __getitem__(self, i):
        return self.data[i]
    def __iter__(self):
        return iter(self.data)
    def __contains__(self, item):
        return item in self.data

class UserDict:
    def __init__(self, dict=None):
        self.data = {}
        if dict is not None:
            self.data.update(dict)
    def __len__(self):
        return len(self.data)
    def __getitem__(self, key):
        return self.data[key]
    def __setitem__(self, key, item):
        self.data[key] = item
    def __contains__(self, key):
        return key in self.data
    def __iter__(self):
        return iter(self.data)
    def keys(self):
        return self.data.keys()
    def items(self):
        return self.data.items()
    def values(self):
        return self.data.values()
    def get(self, key, default=None):
        if key in self.data:
            return self.data[key]
        return default
'''


GYM_PRELUDE = '''
class Env:
    pass


class Wrapper(Env):
    def __init__(self, env):
        self.env = env
'''

GYM_SPACES_PRELUDE = '''
class Space:
    pass


class Discrete(Space):
    def __init__(self, n):
        self.n = n


class Dict(Space):
    def __init__(self, spaces):
        self.spaces = spaces


class Box(Space):
    def __init__(self, low, high, dtype=None):
        self.low = low
        self.high = high
        self.dtype = dtype
'''


class BuiltinType:
    def __init__(self, name):
        self.name = name

    def __repr__(self):
        return f'<type {self.name}>'


class SuperProxy:
    def __init__(self, cls, obj):
        self.cls = cls
        self.obj = obj


class ListMethod:
    def __init__(self, obj, name):
        self.obj = obj
        self.name = name


def B(name):
    def deco(fn):
        return Builtin(name, fn)
    return deco


class LibMixin:
    def install_lib(self):
        b = self.builtins
        self.write_log = None
        for n, e in EXC.items():
            b[n] = e
        for t in ('int', 'float', 'bool', 'str', 'list', 'tuple', 'set', 'frozenset', 'dict', 'object', 'type', 'range'):
            b[t] = BuiltinType(t)
        b['NotImplemented'] = NOTIMPL
        b['Ellipsis'] = Ellipsis
        b['__debug__'] = True
        simple = {
            'len': self.bi_len, 'isinstance': self.bi_isinstance, 'issubclass': self.bi_issubclass,
            'abs': self.bi_abs, 'min': self.bi_min, 'max': self.bi_max, 'sum': self.bi_sum,
            'all': self.bi_all, 'any': self.bi_any, 'zip': self.bi_zip, 'enumerate': self.bi_enumerate,
            'sorted': self.bi_sorted, 'reversed': self.bi_reversed, 'next': self.bi_next,
            'iter': self.bi_iter, 'hash': self.bi_hash, 'callable': self.bi_callable,
            'print': lambda I, a, k: None, 'property': self.bi_property,
            'staticmethod': lambda I, a, k: StaticMethod(a[0]),
            'classmethod': lambda I, a, k: ClassMethod(a[0]),
            'getattr': self.bi_getattr, 'hasattr': self.bi_hasattr, 'repr': lambda I, a, k: '<repr>',
            'map': self.bi_map, 'round': self.bi_round, 'id': self.bi_id,
        }
        for n, f in simple.items():
            b[n] = Builtin(n, f)
        # prelude (interpreted)
        pm = ModuleModel('collections')
        env = Env(module=pm)
        env.vars = pm.ns
        self.func_stack.append('<module collections>')
        self.exec_block(ast.parse(PRELUDE).body, env)
        self.func_stack.pop()
        self.stub_modules['collections'] = pm
        pm.ns['deque'] = Opaque('collections.deque')
        # enum
        em = ModuleModel('enum')
        enum_base = ClassModel('Enum', [], {}, em)
        enum_base.is_enum = True
        em.ns['Enum'] = enum_base
        em.ns['auto'] = Builtin('enum.auto', lambda I, a, k: Opaque('enum.auto'))
        self.stub_modules['enum'] = em
        # abc
        am = ModuleModel('abc')
        am.ns['ABCMeta'] = Opaque('abc.ABCMeta')
        am.ns['ABC'] = ClassModel('ABC', [], {}, am)
        am.ns['abstractmethod'] = Builtin('abstractmethod', lambda I, a, k: a[0])
        self.stub_modules['abc'] = am
        # dataclasses
        dm = ModuleModel('dataclasses')
        dm.ns['dataclass'] = Builtin('dataclass', self.bi_dataclass)
        self.stub_modules['dataclasses'] = dm
        # typing & friends
        for name in ('typing', 'typing_extensions'):
            tm = ModuleModel(name)
            tm.opaque = True
            tm.ns['cast'] = Builtin('cast', lambda I, a, k: a[1])
            tm.ns['overload'] = Builtin('overload', lambda I, a, k: a[0])
            tm.ns['Protocol'] = ClassModel('Protocol', [], {}, tm)
            self.stub_modules[name] = tm
        # functools
        fm = ModuleModel('functools')
        fm.ns['partial'] = Builtin('partial', lambda I, a, k: Partial(a[0], a[1:], k))
        fm.ns['lru_cache'] = Builtin('lru_cache', self.bi_lru_cache)
        # functools.cached_property is read as a plain property (T3: memoisation is transparent); whether a cached
        # value can go stale after an in-place change is left to the native runs of the contracts and lemmas
        fm.ns['cached_property'] = Builtin('cached_property', self.bi_property)
        self.stub_modules['functools'] = fm
        # itertools
        im = ModuleModel('itertools')
        im.ns['chain'] = Builtin('chain', self.bi_chain)
        im.ns['product'] = Builtin('product', self.bi_product)
        im.opaque = True
        self.stub_modules['itertools'] = im
        mm = ModuleModel('more_itertools')
        mm.ns['one'] = Builtin('one', self.bi_one)
        mm.ns['pairwise'] = Builtin('pairwise', self.bi_pairwise)
        mm.opaque = True
        self.stub_modules['more_itertools'] = mm
        # math
        mt = ModuleModel('math')
        self.sqrt_fn = z3.Function('sqrt', z3.RealSort(), z3.RealSort())
        mt.ns['sqrt'] = Builtin('sqrt', self.bi_sqrt)
        mt.ns['pi'] = 3.141592653589793
        mt.opaque = True
        self.stub_modules['math'] = mt
        # numpy
        nm = ModuleModel('numpy')
        nm.opaque = True
        nm.ns['zeros'] = Builtin('zeros', lambda I, a, k: self.np_full(a, k, 0))
        nm.ns['ones'] = Builtin('ones', lambda I, a, k: self.np_full(a, k, 1))
        nm.ns['ndarray'] = BuiltinType('ndarray')
        nm.ns['nan_to_num'] = Builtin('nan_to_num', self.np_nan_to_num)
        nm.ns['array'] = Builtin('array', self.np_array)
        nm.ns['linspace'] = Builtin('linspace', self.np_linspace)
        self.stub_modules['numpy'] = nm
        rm = ModuleModel('numpy.random')
        rm.opaque = True
        rm.ns['default_rng'] = Builtin('default_rng', self.bi_default_rng)
        rm.ns['Generator'] = BuiltinType('Generator')
        # module-level sampling functions of numpy.random draw from (and advance) the process-wide legacy state: a
        # generator that was not passed in; the effect is what the implicit C02/C03 clause reports
        self.global_np_rng = Rng('numpy.random global state')
        def legacy(fname, method):
            def call(I, a, k):
                self.note_effect('global_write', f'numpy.random.{fname} uses the process-wide random state')
                self.note_effect('draw', self.global_np_rng)
                if method is None:
                    return None
                return self.call(self.rng_method(self.global_np_rng, method), list(a), dict(k))
            return Builtin('numpy.random.' + fname, call)
        for fname, method in (('choice', 'choice'), ('randint', 'integers'), ('shuffle', 'shuffle'), ('random', 'random'),
                              ('random_sample', 'random'), ('rand', 'random'), ('seed', None)):
            rm.ns[fname] = legacy(fname, method)
        self.stub_modules['numpy.random'] = rm
        nm.ns['random'] = rm
        # gym (interpreted prelude: only what gym_gridverse/gym.py touches; part of the trusted base T3)
        gm = ModuleModel('gym')
        gs = ModuleModel('gym.spaces')
        gu = ModuleModel('gym.utils')
        env = Env(module=gs)
        env.vars = gs.ns
        self.func_stack.append('<module gym.spaces>')
        self.exec_block(ast.parse(GYM_SPACES_PRELUDE).body, env)
        self.func_stack.pop()
        env = Env(module=gm)
        env.vars = gm.ns
        self.func_stack.append('<module gym>')
        self.exec_block(ast.parse(GYM_PRELUDE).body, env)
        self.func_stack.pop()
        gm.ns['spaces'] = gs
        gm.ns['utils'] = gu
        gm.ns['register'] = Builtin('gym.register', lambda I, a, k: None)
        seeding = ModuleModel('gym.utils.seeding')
        seeding.ns['create_seed'] = Builtin('create_seed', lambda I, a, k: a[0] if a else k.get('a'))
        gu.ns['seeding'] = seeding
        self.stub_modules['gym'] = gm
        self.stub_modules['gym.spaces'] = gs
        self.stub_modules['gym.utils'] = gu
        self.stub_modules['gym.utils.seeding'] = seeding
        pk = ModuleModel('pickle')
        pk.ns['dumps'] = Builtin('pickle.dumps', self.pickle_dumps)
        pk.ns['loads'] = Builtin('pickle.loads', self.pickle_loads)
        pk.ns['HIGHEST_PROTOCOL'] = 5
        pk.ns['DEFAULT_PROTOCOL'] = 4
        self.stub_modules['pickle'] = pk

    # ----------------------------------------------------------------- pickle (T3)
    # pickle.loads(pickle.dumps(x)) of plain instances, lists, tuples, dicts, numbers and enum members is a deep
    # copy of the instance dictionaries (private attributes included) that preserves sharing inside x and shares
    # nothing mutable with x; enum members stay the same singletons.  Classes that customise pickling
    # (__reduce__, __getstate__, __setstate__, __getnewargs__, __slots__) are outside the model.
    PICKLE_HOOKS = ('__reduce__', '__reduce_ex__', '__getstate__', '__setstate__', '__getnewargs__',
                    '__getnewargs_ex__', '__slots__', '__copy__', '__deepcopy__')

    def pickle_check(self, v, seen):
        if id(v) in seen:
            return
        seen.add(id(v))
        if isinstance(v, Instance):
            c = v.cls
            for kls in c.mro():
                for hname in self.PICKLE_HOOKS:
                    if hname in kls.ns:
                        raise Unsupported(f'pickle of {c.name}: class customises pickling with {hname}')
            for x in v.fields.values():
                self.pickle_check(x, seen)
        elif isinstance(v, (list, tuple)):
            for x in v:
                self.pickle_check(x, seen)
        elif isinstance(v, dict):
            for x in v.values():
                self.pickle_check(x, seen)
        elif isinstance(v, (SList, SObj, EnumVal, SArr, str, int, float, bool)) or v is None or is_z3(v):
            return
        else:
            raise Unsupported('pickle of ' + type(v).__name__)

    def pickle_dumps(self, I, a, k):
        from .verify import snapshot
        self.pickle_check(a[0], set())
        tok = Opaque('pickled bytes')
        tok.pickled = snapshot(self, a[0])
        return tok

    def pickle_loads(self, I, a, k):
        from .verify import snapshot
        tok = a[0]
        if not (isinstance(tok, Opaque) and hasattr(tok, 'pickled')):
            raise Unsupported('pickle.loads of bytes that do not come from pickle.dumps')
        return snapshot(self, tok.pickled)

    # ----------------------------------------------------------------- builtins
    def bi_len(self, I, a, k):
        return self.seq_len(a[0])

    def bi_isinstance(self, I, a, k):
        return self.isinstance_(a[0], a[1])

    def bi_issubclass(self, I, a, k):
        c, p = a
        if isinstance(c, ClassModel) and isinstance(p, ClassModel):
            return c.issubclass_of(p)
        if isinstance(c, SClass) and isinstance(p, ClassModel):
            if p is self.objmodel.base:
                return True
            return concretize(z3.Or(*[c.term == self.objmodel.cls_consts[x.name]
                                      for x in self.objmodel.classes if x.issubclass_of(p)] or [z3.BoolVal(False)]))
        raise Unsupported('issubclass')

    def builtin_type_check(self, obj, cls):
        if isinstance(cls, BuiltinType):
            n = cls.name
            if n == 'int':
                return is_intlike(obj) or isinstance(obj, bool)
            if n == 'bool':
                return is_boollike(obj)
            if n == 'float':
                return isinstance(obj, float) or is_sym_real(obj)
            if n == 'str':
                return isinstance(obj, str)
            if n == 'tuple':
                return isinstance(obj, tuple) or (isinstance(obj, SList) and obj.is_tuple)
            if n == 'list':
                return isinstance(obj, (list, GenList)) or (isinstance(obj, SList) and not obj.is_tuple)
            if n == 'dict':
                return isinstance(obj, dict)
            if n in ('set', 'frozenset'):
                return isinstance(obj, CSet)
            if n == 'object':
                return True
            if n == 'ndarray':
                return isinstance(obj, SArr)
            if n == 'Generator':
                return isinstance(obj, Rng)
        if isinstance(cls, ClassModel):
            return False
        return NOTIMPL

    def call_builtin_type(self, t, args, kwargs):
        n = t.name
        if n == 'int':
            v = args[0] if args else 0
            if isinstance(v, bool):
                return int(v)
            if isinstance(v, int):
                return v
            if is_sym_bool(v) or is_sym_int(v):
                return zint(v)
            if isinstance(v, float):
                return int(v)
            raise Unsupported('int() of ' + type(v).__name__)
        if n == 'float':
            v = args[0] if args else 0.0
            if isinstance(v, str):
                return float(v)
            if isinstance(v, (int, float)):
                return float(v)
            return zreal(v)
        if n == 'bool':
            return self.truth_term(args[0]) if args else False
        if n == 'str':
            return '<str>' if args and not isinstance(args[0], str) else (args[0] if args else '')
        if n == 'list':
            if not args:
                return []
            return self.to_list(args[0])
        if n == 'tuple':
            if not args:
                return ()
            v = self.to_list(args[0])
            if isinstance(v, list):
                return tuple(v)
            if isinstance(v, SList):
                c = v.frozen_copy()
                c.is_tuple = True
                return c
            if isinstance(v, GenList):
                # a filtered list of symbolic length frozen into a tuple: the same view (it is never written)
                return v
            raise Unsupported('tuple() of symbolic view')
        if n in ('set', 'frozenset'):
            if not args:
                return CSet([])
            v = args[0]
            if isinstance(v, Gen):
                return self.gen_to_set(v)
            if isinstance(v, (SSet, CSet)):
                return v
            if isinstance(v, GenList):
                return SSet(v.gen)
            return self.make_set(self.iterate(v))
        if n == 'dict':
            d = {}
            if args:
                src = args[0]
                if isinstance(src, dict):
                    d.update(src)
                else:
                    for kk, vv in self.iterate(src):
                        d[self.hashable(kk)] = vv
            d.update(kwargs)
            return d
        if n == 'object':
            return Instance(ClassModel('object', [], {}, None))
        if n == 'range':
            return self.mk_range(args)
        if n == 'type':
            return self.type_of(args[0])
        raise Unsupported(f'{n}()')

    def mk_range(self, args):
        args = [concretize(a) for a in args]
        if all(isinstance(a, int) for a in args):
            return range(*args)
        if len(args) == 1:
            return SRange(0, args[0])
        if len(args) == 2:
            return SRange(args[0], args[1])
        raise Unsupported('symbolic range with step')

    def type_of(self, v):
        if isinstance(v, Instance):
            return v.cls
        if isinstance(v, SObj):
            kc, t = self.objmodel.known_class(v.term)
            return kc if kc is not None else SClass(self.objmodel.cls_of(t))
        if isinstance(v, EnumVal):
            return v.cls
        for n, chk in (('bool', lambda x: isinstance(x, bool)), ('int', lambda x: isinstance(x, int)),
                       ('float', lambda x: isinstance(x, float)), ('str', lambda x: isinstance(x, str)),
                       ('tuple', lambda x: isinstance(x, tuple)), ('list', lambda x: isinstance(x, list))):
            if chk(v):
                return self.builtins[n]
        raise Unsupported('type()')

    def to_list(self, v):
        if isinstance(v, Gen):
            return self.gen_to_list(v)
        if isinstance(v, (list, tuple)):
            return list(v)
        if isinstance(v, SList):
            c = v.frozen_copy()
            if self.is_2d(c):
                return SList(c.n, lambda i: self.slist_read(c, i, raw=True))
            c.is_tuple = False
            return c
        if isinstance(v, RowView):
            return self.row_snapshot(v.parent, v.i)
        if isinstance(v, SRange):
            lo, hi = zint(v.lo), zint(v.hi)
            n = concretize(z3.If(hi > lo, hi - lo, z3.IntVal(0)))
            if isinstance(n, int):
                return [concretize(lo + i) for i in range(n)]
            return SList(n, lambda i: concretize(lo + zint(i)))
        if isinstance(v, GenList):
            return GenList(v.gen)
        if isinstance(v, SSet):
            self.note_effect('set_order', 'list() of a set')
            return GenList(v.gen)
        if isinstance(v, CSet):
            if len(v.items) > 1:
                self.note_effect('set_order', 'list() of a set')
            return list(v.items)
        return list(self.iterate(v))

    def bi_abs(self, I, a, k):
        v = a[0]
        if isinstance(v, (int, float)):
            return abs(v)
        if is_z3(v):
            return concretize(z3.If(v >= 0, v, -v))
        raise Unsupported('abs')

    def _minmax(self, a, k, ismax):
        items = list(a) if len(a) > 1 else self.iterate_or_gen(a[0])
        if isinstance(items, Gen):
            return self.gen_minmax(items, ismax)
        if not items:
            if 'default' in k:
                return k['default']
            py_raise('ValueError', 'empty sequence')
        r = items[0]
        for x in items[1:]:
            if isinstance(r, (int, float)) and isinstance(x, (int, float)):
                r = max(r, x) if ismax else min(r, x)
            else:
                c = self.truth_term(self.compare(ast.Gt() if ismax else ast.Lt(), x, r))
                r = self.merge(c, x, r)
        return r

    def iterate_or_gen(self, v):
        from .interp import SymbolicIteration
        try:
            return self.iterate(v)
        except SymbolicIteration as si:
            if isinstance(si.value, (Gen,)):
                return si.value
            g = self.comprehension_of(si.value)
            return g

    def comprehension_of(self, v):
        alts = self.sym_domain(v)
        return Gen([Part(list(r), f, e) for r, f, e in alts])

    def gen_minmax(self, g, ismax):
        """max over a symbolic generator of ints: skolem m with axioms"""
        m = self.fresh_int('m')
        alts = []
        for p in self.rename_parts(g):
            e = zint(p.elem)
            gd = zbool(p.guard())
            vs = p.vars
            bound = (e <= m) if ismax else (e >= m)
            self.assume(z3.ForAll(vs, z3.Implies(gd, bound)) if vs else z3.Implies(gd, bound))
            alts.append(z3.Exists(vs, z3.And(gd, e == m)) if vs else z3.And(gd, e == m))
        nonempty = z3.Or(*alts)
        if not self.branch(nonempty):
            py_raise('ValueError', 'empty sequence')
        return m

    def bi_min(self, I, a, k):
        return self._minmax(a, k, False)

    def bi_max(self, I, a, k):
        return self._minmax(a, k, True)

    def bi_sum(self, I, a, k):
        items = self.iterate(a[0])
        r = a[1] if len(a) > 1 else 0
        for x in items:
            r = self.binop(ast.Add(), r, x)
        return r

    def quant(self, v, is_all):
        from .interp import SymbolicIteration
        try:
            items = self.iterate(v)
        except SymbolicIteration as si:
            g = si.value if isinstance(si.value, Gen) else self.comprehension_of(si.value)
            cs = []
            for p in self.rename_parts(g):
                e = zbool(self.truth_term(p.elem))
                gd = zbool(p.guard())
                vs = p.vars
                if is_all:
                    body = z3.Implies(gd, e)
                    cs.append(z3.ForAll(vs, body) if vs else body)
                else:
                    body = z3.And(gd, e)
                    cs.append(z3.Exists(vs, body) if vs else body)
            if not cs:
                return is_all
            return concretize(z3.And(*cs) if is_all else z3.Or(*cs))
        acc = is_all
        for x in items:
            t = self.truth_term(x)
            if isinstance(t, bool):
                if t != is_all:
                    return t
                continue
            if isinstance(acc, bool):
                acc = t
            else:
                acc = z3.And(acc, t) if is_all else z3.Or(acc, t)
        return acc

    def bi_all(self, I, a, k):
        return self.quant(a[0], True)

    def bi_any(self, I, a, k):
        return self.quant(a[0], False)

    def bi_zip(self, I, a, k):
        if len(a) >= 1 and all(isinstance(x, (SList, RowView)) for x in a) and not all(
                isinstance(self.seq_len(x), int) for x in a):
            return self.zip_symbolic(a)
        lists = [self.iterate(x) for x in a]
        return [tuple(t) for t in zip(*lists)]

    def zip_symbolic(self, rows):
        raise Unsupported('zip of symbolic lists')

    def zip_star(self, data):
        """zip(*data) for a list of equal-length rows (transpose)"""
        fz = data.frozen_copy()
        probe = z3.Int('probe!zip')
        inner = fz.elem(probe)
        n_in = self.inner_len(inner)
        if is_z3(n_in) and any(str(probe) == str(c) for c in _consts(n_in)):
            raise Unsupported('ragged rows in zip(*data)')
        n_out = fz.n
        cw = list(fz.cellwrites)
        outer_n = concretize(z3.If(zint(n_out) > 0, zint(n_in), 0))
        def col(j):
            return SList(n_out, lambda i: self.cell_read(fz, i, j, cw), is_tuple=True)
        return SList(outer_n, col)

    def bi_enumerate(self, I, a, k):
        start = a[1] if len(a) > 1 else k.get('start', 0)
        return [(start + i, x) for i, x in enumerate(self.iterate(a[0]))]

    def bi_sorted(self, I, a, k):
        src = a[0]
        keyf = k.get('key')
        if isinstance(src, CSet):
            items = list(src.items)     # order of a set: harmless iff the sort keys cannot tie (checked below)
        else:
            items = self.iterate(src)
        if k.get('reverse'):
            raise Unsupported('sorted(reverse=True)')
        keys = [self.call(keyf, [x], {}) for x in items] if keyf is not None else list(items)
        if all(isinstance(x, (int, float, str)) for x in keys) or all(
                isinstance(x, tuple) and all(isinstance(y, int) for y in x) for x in keys):
            order = sorted(range(len(items)), key=lambda i: keys[i])
            return [items[i] for i in order]
        if not all(is_intlike(x) for x in keys):
            raise Unsupported('sorted of symbolic non-integer keys')
        if isinstance(src, CSet) and len(items) > 1:
            if not self.valid(z3.Distinct(*[zint(x) for x in keys])):
                self.note_effect('set_order', 'sorted() of a set whose keys may tie')
        # compare-exchange network (bubble sort) on (key, item) pairs, merged with if-then-else
        pairs = list(zip(keys, items))
        n = len(pairs)
        for i in range(n):
            for j in range(n - 1 - i):
                (k1, v1), (k2, v2) = pairs[j], pairs[j + 1]
                sw = self.truth_term(self.compare(ast.Gt(), k1, k2))
                pairs[j] = (self.merge(sw, k2, k1), self.merge(sw, v2, v1))
                pairs[j + 1] = (self.merge(sw, k1, k2), self.merge(sw, v1, v2))
        return [v for _, v in pairs]

    def bi_reversed(self, I, a, k):
        return list(reversed(self.iterate(a[0])))

    def bi_iter(self, I, a, k):
        return a[0]

    def bi_map(self, I, a, k):
        f = a[0]
        if len(a) == 2 and isinstance(a[1], SList) and not isinstance(a[1].n, int):
            src = a[1].frozen_copy()
            return SList(src.n, lambda i: self.call(f, [self.slist_read(src, i, raw=True)], {}))
        lists = [self.iterate(x) for x in a[1:]]
        return [self.call(f, list(t), {}) for t in zip(*lists)]

    def bi_round(self, I, a, k):
        if isinstance(a[0], (int, float)) and len(a) == 1:
            return round(a[0])
        raise Unsupported('round')

    def bi_id(self, I, a, k):
        self.note_effect('identity', 'id()')
        raise Unsupported('id()')

    def bi_callable(self, I, a, k):
        return isinstance(a[0], (FunctionModel, BoundMethod, Builtin, Partial, ClassModel, SymCallable))

    def bi_property(self, I, a, k):
        return PropertyModel(a[0] if a else k.get('fget'))

    def bi_getattr(self, I, a, k):
        try:
            return self.getattr_(a[0], a[1])
        except PyRaise as e:
            if len(a) > 2 and e.exc.cls.issub(EXC['AttributeError']):
                return a[2]
            raise

    def bi_hasattr(self, I, a, k):
        try:
            self.getattr_(a[0], a[1])
            return True
        except PyRaise as e:
            if e.exc.cls.issub(EXC['AttributeError']):
                return False
            raise

    def bi_dataclass(self, I, a, k):
        if a:
            return self.apply_dataclass(a[0], **k)
        return Builtin('dataclass()', lambda I2, a2, k2: self.apply_dataclass(a2[0], **k))

    def bi_lru_cache(self, I, a, k):
        if a and isinstance(a[0], FunctionModel):
            a[0].lru_cache = True
            return a[0]
        def deco(I2, a2, k2):
            a2[0].lru_cache = True
            return a2[0]
        return Builtin('lru_cache()', deco)

    def bi_chain(self, I, a, k):
        parts = []
        for x in a:
            if isinstance(x, Gen):
                parts.extend(x.parts)
            else:
                from .interp import SymbolicIteration
                try:
                    for it in self.iterate(x):
                        parts.append(Part([], True, it))
                except SymbolicIteration as si:
                    parts.extend(self.comprehension_of(si.value).parts)
        return Gen(parts)

    def bi_product(self, I, a, k):
        import itertools
        return [tuple(t) for t in itertools.product(*[self.iterate(x) for x in a])]

    def bi_pairwise(self, I, a, k):
        items = self.iterate(a[0])
        return list(zip(items, items[1:]))

    def bi_sqrt(self, I, a, k):
        v = a[0]
        if isinstance(v, (int, float)):
            import math
            return math.sqrt(v)
        # mathematical square root (T7): non-negative, squares back to its argument, ValueError below zero
        zv = zreal(v)
        if self.branch(zv < 0):
            py_raise('ValueError', 'math domain error')
        r = self.sqrt_fn(zv)
        self.assume(z3.And(r >= 0, r * r == zv))
        return r

    def lex_less(self, a, b):
        r = z3.BoolVal(False)
        for x, y in reversed(list(zip(a, b))):
            r = z3.Or(x < y, z3.And(x == y, r))
        return r

    def first_of_gen(self, g):
        """(exists_cond, first element) for a single-part generator, in iteration order"""
        parts = self.rename_parts(g)
        if len(parts) != 1:
            raise Unsupported('next() on chained generator')
        p = parts[0]
        vs = p.vars
        gd = zbool(p.guard())
        if not vs:
            return gd, p.elem
        v0 = [self.fresh_int('first') for _ in vs]
        pairs = list(zip(vs, v0))
        ex = z3.Exists(vs, gd)
        return ex, (p, vs, v0, pairs, gd)

    def bi_next(self, I, a, k):
        src = a[0]
        if isinstance(src, (list, tuple)):
            if src:
                return src[0]
            if len(a) > 1:
                return a[1]
            py_raise('StopIteration')
        if not isinstance(src, Gen):
            raise Unsupported('next() of ' + type(src).__name__)
        if all(not p.ranges for p in src.parts):
            for p in src.parts:
                if self.branch(p.filt):
                    return p.elem
            if len(a) > 1:
                return a[1]
            py_raise('StopIteration')
        ex, info = self.first_of_gen(src)
        if not self.branch(ex):
            if len(a) > 1:
                return a[1]
            py_raise('StopIteration')
        p, vs, v0, pairs, gd = info
        self.assume(z3.substitute(gd, *pairs))
        self.assume(z3.ForAll(vs, z3.Implies(gd, z3.Not(self.lex_less(vs, v0)))))
        return self.subst_value(p.elem, pairs)

    def bi_one(self, I, a, k):
        src = a[0]
        if isinstance(src, (list, tuple)):
            if len(src) == 1:
                return src[0]
            py_raise('ValueError', 'expected exactly one item')
        if not isinstance(src, Gen):
            raise Unsupported('one() of ' + type(src).__name__)
        parts = self.rename_parts(src)
        if len(parts) != 1 or not parts[0].ranges:
            raise Unsupported('one() on chained generator')
        p = parts[0]
        vs = p.vars
        gd = zbool(p.guard())
        v0 = [self.fresh_int('one') for _ in vs]
        pairs = list(zip(vs, v0))
        uniq = z3.Exists(v0, z3.And(z3.substitute(gd, *pairs),
                                   z3.ForAll(vs, z3.Implies(gd, z3.And(*[a1 == b1 for a1, b1 in zip(vs, v0)])))))
        if not self.branch(uniq):
            py_raise('ValueError', 'expected exactly one item')
        self.assume(z3.substitute(gd, *pairs))
        self.assume(z3.ForAll(vs, z3.Implies(gd, z3.And(*[a1 == b1 for a1, b1 in zip(vs, v0)]))))
        return self.subst_value(p.elem, pairs)

    def bi_hash(self, I, a, k):
        return self.hash_of(a[0])

    def hash_of(self, v):
        hf = getattr(self, '_hash_fn', None)
        if hf is None:
            self._hash_int = z3.Function('hash_int', z3.IntSort(), z3.IntSort())
            self._hash_pair = z3.Function('hash_pair', z3.IntSort(), z3.IntSort(), z3.IntSort())
            self._hash_fn = True
            self._hash_enum = {}
        if isinstance(v, bool):
            v = int(v)
        if is_intlike(v):
            return self._hash_int(zint(v))
        if isinstance(v, EnumVal):
            f = self._hash_enum.get(v.cls.qualname)
            if f is None:
                f = z3.Function('hash_' + v.cls.qualname.replace('.', '_'), v.cls.enum_sort, z3.IntSort())
                self._hash_enum[v.cls.qualname] = f
            self.note_effect('hash_str', f'hash of enum {v.cls.qualname} (string hash, randomised)')
            return f(v.term)
        if isinstance(v, tuple):
            r = z3.IntVal(len(v))
            for x in v:
                r = self._hash_pair(r, zint(self.hash_of(x)))
            return r
        if isinstance(v, (SObj, Instance)):
            if isinstance(v, SObj) and self.pure_depth == 0:
                # per-class dispatch of a symbolic grid object: merge the cases instead of forking the path
                from .interp import DEAD, MergeFail
                try:
                    h = self.pure(lambda: self.call_dunder(v, '__hash__', [], missing_ok=True))
                    if h is not DEAD and h is not NOTIMPL:
                        return h
                except MergeFail:
                    pass
            h = self.call_dunder(v, '__hash__', [], missing_ok=True)
            if h is NOTIMPL:
                if isinstance(v, Instance) and v.cls.is_dataclass:
                    # dataclass-generated __hash__ (frozen / unsafe_hash): hash of the field tuple
                    return self.hash_of(tuple(v.fields[n] for n, _ in v.cls.dc_fields))
                raise Unsupported('identity hash')
            return h
        if isinstance(v, RowView):
            # a row of a 2-D tuple view (tuple(map(tuple, rows)) keeps its rows as views)
            v = self.row_snapshot(v.parent, v.i)
            v.is_tuple = True
        if isinstance(v, SList) and v.is_tuple:
            # tuple of symbolic length: hash_seq(length, array of the element hashes, zero beyond the length);
            # two such tuples with equal lengths and pointwise equal element hashes get equal arrays
            # (extensionality), nothing else is known about the value
            n = v.n
            if isinstance(n, int):
                return self.hash_of(tuple(self.getitem(v, i) for i in range(n)))
            if not hasattr(self, '_hash_seq'):
                self._hash_seq = z3.Function('hash_seq', z3.IntSort(), z3.ArraySort(z3.IntSort(), z3.IntSort()), z3.IntSort())
            i = self.fresh_int('hi')
            guard = z3.And(i >= 0, i < zint(n))
            from .interp import DEAD
            eh = self.pure(lambda: zint(self.hash_of(self.getitem(v, i))), guard)
            if eh is DEAD:
                eh = z3.IntVal(0)
            arr = z3.Lambda([i], z3.If(guard, zint(eh), z3.IntVal(0)))
            return self._hash_seq(zint(n), arr)
        raise Unsupported('hash of ' + type(v).__name__)

    # -------------------------------------------------------------------- numpy
    def np_linspace(self, I, a, k):
        """np.linspace(start, stop, num, dtype=int) with concrete num <= 6:
        floor((start*(num-1) + i*(stop-start)) / (num-1)), see libmodels.linspace_int (T3, T7)"""
        start, stop = a[0], a[1]
        num = concretize(k.get('num', a[2] if len(a) > 2 else 50))
        dtype = k.get('dtype')
        if not (isinstance(dtype, BuiltinType) and dtype.name == 'int'):
            raise Unsupported('np.linspace without dtype=int')
        if not isinstance(num, int):
            raise Unsupported('np.linspace with a symbolic number of samples')
        if num < 0:
            py_raise('ValueError', 'Number of samples must be non-negative')
        if num > LINSPACE_MAX_NUM:
            raise Unsupported(f'np.linspace with more than {LINSPACE_MAX_NUM} samples (float rounding is not modelled)')
        return self.new_list(linspace_int(start, stop, num, self.arith))

    def np_array(self, I, a, k):
        """np.array(nested lists[, dtype]): kept as the nested list itself (element access only)"""
        x = a[0]
        if isinstance(x, (list, tuple)):
            return self.new_list(list(x))
        if isinstance(x, SList):
            return self.to_list(x)
        raise Unsupported('np.array of ' + type(x).__name__)

    def np_full(self, a, k, val):
        shape = a[0]
        dtype = k.get('dtype', a[1] if len(a) > 1 else None)
        if is_intlike(shape) and isinstance(concretize(shape), int):
            # 1-D array of concrete length: a list of numbers (float unless an integer dtype is given)
            if dtype is not None and not isinstance(dtype, BuiltinType):
                raise Unsupported(f'numpy dtype {dtype!r} is not modelled')
            isint = isinstance(dtype, BuiltinType) and dtype.name in ('int', 'bool')
            return self.new_list([(int(val) if isint else float(val)) for _ in range(concretize(shape))])
        if not (isinstance(shape, tuple) and len(shape) == 2):
            raise Unsupported('numpy shape')
        kind = 'real'
        if isinstance(dtype, BuiltinType):
            kind = {'bool': 'bool', 'int': 'int', 'float': 'real'}.get(dtype.name, 'real')
        elif dtype is not None:
            # fixed-width / exotic dtypes (np.uint8, ...) are machine arithmetic: not modelled, never ignored
            raise Unsupported(f'numpy dtype {dtype!r} is not modelled')
        v = {'bool': bool(val), 'int': int(val), 'real': float(val)}[kind]
        h, w = shape
        for d in (h, w):
            if self.branch(zint(d) < 0):
                py_raise('ValueError', 'negative dimensions are not allowed')
        return SArr(h, w, lambda i, j: v, kind)

    def np_nan_to_num(self, I, a, k):
        A = a[0]
        if not (isinstance(A, SArr) and A.kind == 'ratio'):
            raise Unsupported('nan_to_num of a non-ratio array')
        big = getattr(self, '_np_big', None)
        if big is None:
            big = self._np_big = z3.Real('np_float_max')
            self.np_big_fact = big > 1000000
        w = list(A.writes)
        def elem(i, j):
            num, den = self.sarr_read(A, i, j, w)
            n, d = zreal(num), zreal(den)
            # nan -> 0.0, +inf -> largest finite float, -inf -> most negative
            return z3.If(d == 0, z3.If(n == 0, z3.RealVal(0), z3.If(n > 0, big, -big)), n / d)
        self.assume(self.np_big_fact)
        return SArr(A.h, A.w, elem, 'real')

    # ---------------------------------------------------------------------- rng
    def bi_default_rng(self, I, a, k):
        self.note_effect('new_rng', 'numpy.random.default_rng()')
        r = Rng(self.fresh_name('rng'))
        r.seed = a[0] if a else k.get('seed')
        return r

    def rng_method(self, rng, name):
        def choice(I, a, k):
            n = a[0]
            size = k.get('size', a[1] if len(a) > 1 else None)
            replace = k.get('replace', True)
            if not isinstance(replace, bool):
                replace = self.branch(zbool(replace))
            data = None
            if not is_intlike(n):
                data = n
                n = self.seq_len(data)
            self.note_effect('draw', rng)
            if size is None:
                if self.branch(zint(n) <= 0):
                    py_raise('ValueError', "a must be greater than 0 unless no samples are taken")
                i = self.fresh_int('choice')
                self.assume(z3.And(i >= 0, i < zint(n)))
                rng.draws.append(('choice', [i], n))
                return i if data is None else self.getitem(data, i)
            size = concretize(size)
            if not isinstance(size, int):
                # symbolic sample size: an index function with range (and injectivity) axioms
                zs, zn = zint(size), zint(n)
                if self.branch(zs < 0):
                    py_raise('ValueError', 'negative dimensions are not allowed')
                if not replace:
                    if self.branch(zn < zs):
                        py_raise('ValueError', 'Cannot take a larger sample than population when replace is False')
                if self.branch(z3.And(zs > 0, zn <= 0)):
                    py_raise('ValueError', 'a cannot be empty unless no samples are taken')
                IDX = z3.Function(self.fresh_name('sample'), z3.IntSort(), z3.IntSort())
                t, t2 = z3.Int(self.fresh_name('t')), z3.Int(self.fresh_name('t2'))
                self.assume(z3.ForAll([t], z3.Implies(z3.And(t >= 0, t < zs), z3.And(IDX(t) >= 0, IDX(t) < zn)),
                                      patterns=[IDX(t)]))
                if not replace:
                    self.assume(z3.ForAll([t, t2], z3.Implies(z3.And(t >= 0, t < t2, t2 < zs), IDX(t) != IDX(t2)),
                                          patterns=[z3.MultiPattern(IDX(t), IDX(t2))]))
                rng.draws.append(('sample', IDX, (n, size)))
                idxs = SList(size, lambda i: IDX(zint(i)))
                if data is None:
                    return idxs
                dd = data
                return SList(size, lambda i: self.getitem(dd, IDX(zint(i))))
            if size < 0:
                py_raise('ValueError', 'negative dimensions are not allowed')
            if replace:
                if size > 0 and self.branch(zint(n) <= 0):
                    py_raise('ValueError', 'a cannot be empty unless no samples are taken')
            else:
                if self.branch(zint(n) < size):
                    py_raise('ValueError', "Cannot take a larger sample than population when replace is False")
                if size > 0 and self.branch(zint(n) <= 0):
                    py_raise('ValueError', 'a cannot be empty unless no samples are taken')
            idx = [self.fresh_int('choice') for _ in range(size)]
            for i in idx:
                self.assume(z3.And(i >= 0, i < zint(n)))
            if not replace and size > 1:
                self.assume(z3.Distinct(*idx))
            rng.draws.append(('choices', idx, n))
            if data is None:
                return list(idx)
            return [self.getitem(data, i) for i in idx]

        def integers(I, a, k):
            low = a[0]
            high = a[1] if len(a) > 1 else k.get('high')
            endpoint = k.get('endpoint', False)
            if high is None:
                low, high = 0, low
            if k.get('size') is not None:
                raise Unsupported('rng.integers size')
            self.note_effect('draw', rng)
            hi = zint(high) + (1 if endpoint else 0)
            if self.branch(zint(low) >= hi):
                py_raise('ValueError', 'low >= high')
            v = self.fresh_int('integers')
            self.assume(z3.And(v >= zint(low), v < hi))
            rng.draws.append(('integers', [v], (low, high, endpoint)))
            return v

        def shuffle(I, a, k):
            # in-place permutation of a list: any bijection of the index range is a possible outcome
            x = a[0]
            self.note_effect('draw', rng)
            if isinstance(x, list):
                m = len(x)
                idx = [self.fresh_int('perm') for _ in range(m)]
                for i in idx:
                    self.assume(z3.And(i >= 0, i < m))
                if m > 1:
                    self.assume(z3.Distinct(*idx))
                src = list(x)
                new = [self.getitem(src, i) for i in idx] if m > 1 else src
                self.check_write(x)
                x[:] = new
                rng.draws.append(('shuffle', idx, m))
                return None
            if isinstance(x, SList) and not x.is_tuple:
                self.check_write(x)
                src = x.frozen_copy()
                zn = zint(x.n)
                PI = z3.Function(self.fresh_name('perm'), z3.IntSort(), z3.IntSort())
                INV = z3.Function(self.fresh_name('perminv'), z3.IntSort(), z3.IntSort())
                t = z3.Int(self.fresh_name('t'))
                self.assume(z3.ForAll([t], z3.Implies(z3.And(t >= 0, t < zn), z3.And(
                    PI(t) >= 0, PI(t) < zn, INV(PI(t)) == t)), patterns=[PI(t)]))
                self.assume(z3.ForAll([t], z3.Implies(z3.And(t >= 0, t < zn), z3.And(
                    INV(t) >= 0, INV(t) < zn, PI(INV(t)) == t)), patterns=[INV(t)]))
                x.elem = lambda i: self.slist_read(src, PI(zint(i)))
                x.writes = []
                x.cellwrites = []
                x.version += 1
                rng.draws.append(('shuffle_fn', PI, x.n))
                rng.perm_inverse = getattr(rng, 'perm_inverse', []) + [INV]
                return None
            raise Unsupported('rng.shuffle of ' + type(x).__name__)

        def random(I, a, k):
            self.note_effect('draw', rng)
            shape = a[0] if a else k.get('size')
            if shape is None:
                r = self.fresh_real('random')
                self.assume(z3.And(r >= 0, r < 1))
                rng.draws.append(('random', [r], None))
                return r
            if not (isinstance(shape, tuple) and len(shape) == 2):
                raise Unsupported('rng.random shape')
            f = z3.Function(self.fresh_name('random'), z3.IntSort(), z3.IntSort(), z3.RealSort())
            i, j = z3.Ints('ri rj')
            self.assume(z3.ForAll([i, j], z3.And(f(i, j) >= 0, f(i, j) < 1), patterns=[f(i, j)]))
            rng.draws.append(('random_array', f, shape))
            return SArr(shape[0], shape[1], lambda i, j: f(zint(i), zint(j)), 'real')

        table = {'choice': choice, 'integers': integers, 'shuffle': shuffle, 'random': random}
        if name not in table:
            raise Unsupported(f'rng.{name}')
        return Builtin(f'rng.{name}', table[name])

    # ----------------------------------------------------------------- ext hooks
    def ext_getattr(self, obj, name):
        if isinstance(obj, (list, tuple, dict, CSet, SSet, SList, GenList, str, Gen, RowView)):
            if isinstance(obj, (tuple, list, dict, str)) and not self.has_method(obj, name):
                py_raise('AttributeError', f'{type(obj).__name__}.{name}')
            return ListMethod(obj, name)
        if isinstance(obj, SArr):
            if name == 'shape':
                return (obj.h, obj.w)
            return ListMethod(obj, name)
        if isinstance(obj, Rng):
            return self.rng_method(obj, name)
        if isinstance(obj, PropertyModel):
            if name == 'setter':
                def setter(I, a, k, prop=obj):
                    return PropertyModel(prop.fget, a[0])
                return Builtin('property.setter', setter)
            if name == 'getter':
                return Builtin('property.getter', lambda I, a, k, prop=obj: PropertyModel(a[0], prop.fset))
        if isinstance(obj, SuperProxy):
            return self.super_getattr(obj, name)
        if isinstance(obj, (int, float)) or is_z3(obj):
            py_raise('AttributeError', name)
        if isinstance(obj, Partial):
            if name == 'func':
                return obj.func
            if name == 'keywords':
                return obj.kwargs
        if isinstance(obj, BuiltinType):
            return Opaque(f'{obj.name}.{name}')
        return NOTIMPL

    def has_method(self, obj, name):
        return hasattr(type(obj), name)

    def super_getattr(self, sp, name):
        mro = sp.obj.cls.mro() if hasattr(sp.obj, 'cls') and isinstance(sp.obj.cls, ClassModel) else (
            sp.obj.mro() if isinstance(sp.obj, ClassModel) else [])
        after = False
        for c in mro:
            if after and name in c.ns:
                v = c.ns[name]
                if isinstance(v, FunctionModel):
                    return BoundMethod(v, sp.obj)
                if isinstance(v, ClassMethod):
                    return BoundMethod(v.func, sp.obj)
                return v
            if c is sp.cls:
                after = True
        if name in ('__init__', '__init_subclass__', '__post_init__'):
            return Builtin('object.' + name, lambda I, a, k: None)
        py_raise('AttributeError', f'super().{name}')

    def ext_class_attr(self, cls, inst, name):
        return NOTIMPL

    def call_list_method(self, m, args, kwargs):
        o, n = m.obj, m.name
        if isinstance(o, list):
            if n == 'append':
                self.check_write(o)
                o.append(args[0])
                return None
            if n == 'extend':
                self.check_write(o)
                o.extend(self.iterate(args[0]))
                return None
            if n == 'index':
                for i, x in enumerate(o):
                    e = self.truth_term(self.equals(x, args[0]))
                    if e is True:
                        return i
                    if e is not False:
                        if self.branch(e):
                            return i
                py_raise('ValueError', 'not in list')
            if n == 'copy':
                return list(o)
            if n == 'pop':
                self.check_write(o)
                try:
                    return o.pop(*args)
                except IndexError:
                    py_raise('IndexError', 'pop from empty list')
            if n == 'insert':
                self.check_write(o)
                o.insert(args[0], args[1])
                return None
            if n == 'count':
                return sum(1 for x in o if self.truth_term(self.equals(x, args[0])) is True)
        if isinstance(o, tuple):
            if n == 'index':
                return self.call_list_method(ListMethod(list(o), 'index'), args, kwargs)
        if isinstance(o, dict):
            if n == 'get':
                return self.dict_lookup(o, args[0], args[1] if len(args) > 1 else kwargs.get('default'))
            if n == 'items':
                return [(k0, v0) for k0, v0 in o.items()]
            if n == 'keys':
                return list(o.keys())
            if n == 'values':
                return list(o.values())
            if n == 'update':
                self.check_write(o)
                if args:
                    o.update(args[0])
                o.update(kwargs)
                return None
            if n == 'copy':
                return dict(o)
            if n == 'setdefault' and args and isinstance(args[0], (str, int)) and not isinstance(args[0], bool):
                if args[0] in o:
                    return o[args[0]]
                self.check_write(o)
                o[args[0]] = args[1] if len(args) > 1 else None
                return o[args[0]]
            if n == 'pop' and args and isinstance(args[0], (str, int)) and not isinstance(args[0], bool):
                if args[0] in o:
                    self.check_write(o)
                    return o.pop(args[0])
                if len(args) > 1:
                    return args[1]
                py_raise('KeyError', repr(args[0]))
        if isinstance(o, str):
            if n == 'format':
                return '<str>'
            if n in ('startswith', 'endswith', 'split', 'join', 'lower', 'upper', 'strip'):
                return getattr(o, n)(*args)
        if isinstance(o, (CSet, SSet)):
            if n == 'issubset':
                return self.issubset(o, args[0])
            if n == 'union' and isinstance(o, CSet):
                return self.make_set(o.items + self.iterate(args[0]))
            if n == 'add' and isinstance(o, CSet):
                if self.truth_term(self.contains(o.items, args[0])) is not True:
                    o.items.append(args[0])
                return None
        if isinstance(o, SArr):
            if n == 'max':
                raise Unsupported('ndarray.max')
        raise Unsupported(f'method {type(o).__name__}.{n}')

    def issubset(self, s, other):
        if isinstance(s, CSet):
            acc = True
            for x in s.items:
                t = self.truth_term(self.contains(other, x))
                if t is False:
                    return False
                if t is not True:
                    acc = t if acc is True else z3.And(acc, t)
            return acc
        cs = []
        for p in self.rename_parts(s.gen):
            t = self.truth_term(self.contains(other, p.elem))
            body = z3.Implies(zbool(p.guard()), zbool(t))
            cs.append(z3.ForAll(p.vars, body) if p.vars else body)
        return concretize(z3.And(*cs)) if cs else True

    def ext_binop(self, op, a, b):
        if op is ast.Add and isinstance(a, (GenList, list, SList)) and isinstance(b, (GenList, list, SList)) \
                and (isinstance(a, GenList) or isinstance(b, GenList)):
            # concatenation of list views: the chain of their generator parts
            def parts_of(x):
                if isinstance(x, GenList):
                    return list(x.gen.parts)
                if isinstance(x, list):
                    return [Part([], True, it) for it in x]
                return self.comprehension_of(x).parts
            return GenList(Gen(parts_of(a) + parts_of(b)))
        if isinstance(a, CSet) and isinstance(b, CSet) and op is ast.BitOr:
            return self.make_set(a.items + b.items)
        if isinstance(a, SArr) and op in (ast.BitOr, ast.BitAnd) and isinstance(b, SArr):
            f = (lambda x, y: concretize(z3.Or(zbool(x), zbool(y)))) if op is ast.BitOr else (
                lambda x, y: concretize(z3.And(zbool(x), zbool(y))))
            return self.sarr_map2(a, b, f, 'bool')
        if isinstance(a, SArr) and op is ast.Div and isinstance(b, SArr):
            # numpy int/int true division: kept as (num, den) pairs; 0/0 is nan, x/0 is inf
            return self.sarr_map2(a, b, lambda x, y: (x, y), 'ratio')
        return NOTIMPL

    def ext_compare(self, t, a, b):
        if isinstance(a, SArr):
            opn = {ast.Lt: ast.Lt(), ast.LtE: ast.LtE(), ast.Gt: ast.Gt(), ast.GtE: ast.GtE()}[t]
            return self.sarr_map2(a, b, lambda x, y: self.truth_term(self.compare(opn, x, y)), 'bool')
        return NOTIMPL

    def ext_equals(self, a, b):
        if isinstance(a, CSet) and isinstance(b, CSet):
            x = self.truth_term(self.issubset(a, b.items))
            y = self.truth_term(self.issubset(b, a.items))
            if isinstance(x, bool) and isinstance(y, bool):
                return x and y
            return z3.And(zbool(x), zbool(y))
        if isinstance(a, BuiltinType) or isinstance(b, BuiltinType):
            return a is b
        if isinstance(a, SList) and isinstance(b, (tuple, list)) and isinstance(a.n, int):
            return self.equals(tuple(self.iterate(a)) if isinstance(b, tuple) else self.iterate(a), b)
        if isinstance(b, SList) and isinstance(a, (tuple, list)):
            return self.ext_equals(b, a)
        if isinstance(a, Opaque) or isinstance(b, Opaque):
            return a is b
        return NOTIMPL

    def ext_contains(self, cont, x):
        return NOTIMPL

    def ext_iterate(self, v):
        if isinstance(v, ListMethod):
            raise Unsupported('iterate method')
        return NOTIMPL

    def ext_len(self, v):
        return NOTIMPL

    def ext_getitem(self, obj, idx):
        if isinstance(obj, Opaque):
            return Opaque(f'{obj.name}[...]')
        if isinstance(obj, BuiltinType):
            return obj
        return NOTIMPL

    def truth_term_ext(self, v):
        if isinstance(v, CSet):
            return len(v.items) > 0
        if isinstance(v, GenList):
            return concretize(self.fview(v)['n'] > 0)
        if isinstance(v, (Opaque, BuiltinType, Partial, SymCallable, Rng)):
            return True
        return None


def _consts(t):
    out = []
    seen = set()
    def rec(e):
        if e.get_id() in seen:
            return
        seen.add(e.get_id())
        if z3.is_const(e) and e.decl().kind() == z3.Z3_OP_UNINTERPRETED:
            out.append(e)
        for c in e.children():
            rec(c)
    rec(t)
    return out
