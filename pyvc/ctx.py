"""Path context: path condition, solver, decision frames, fresh symbols."""
from __future__ import annotations

import z3

from .core import (PathEnd, PyRaise, STATS, Unsupported, concretize, is_sym_bool)

FEAS_TIMEOUT_MS = 2500


class Frame:
    def __init__(self, merge):
        self.merge = merge  # True: leaves will be merged (pure evaluation)
        self.prefix = []
        self.trace = []
        self.conds = []
        self.alternatives = []
        self.facts = []  # facts added to pc within the current leaf


class CtxMixin:
    def init_ctx(self):
        self.solver = z3.Solver()          # quantifier-free part of the path
        self.solver.set('timeout', FEAS_TIMEOUT_MS)
        self.full = z3.Solver()            # whole path, E-matching only (fast unsat)
        self.full.set('timeout', 400)
        self.full.set('smt.mbqi', False)
        self.nquant = 0
        self.check_cache = {}
        self.pcq = []
        self.pc = []
        self.frames = []
        self.fresh_counter = 0
        self.pure_depth = 0
        self.pure_birth = []
        self.max_paths = 4000
        self.path_count = 0

    # -- path condition ------------------------------------------------------
    def pc_mark(self):
        return len(self.pc)

    def pc_push(self, f):
        q = has_quant(f)
        self.pc.append(f)
        self.pcq.append(q)
        if q:
            self.nquant += 1

    def pc_reset(self, mark):
        while len(self.pc) > mark:
            self.pc.pop()
            q = self.pcq.pop()
            if q:
                self.nquant -= 1

    def assume(self, f):
        """add a fact to the current path (kept when leaves are merged)"""
        f = concretize(f)
        if f is True:
            return
        if f is False:
            raise PathEnd()
        self.pc_push(f)
        if self.frames:
            self.frames[-1].facts.append(f)

    def check_sat(self, *extra):
        """unsat only if certainly infeasible; quantified facts are used through
        E-matching only (an `unknown` there counts as feasible)"""
        key = (tuple(f.get_id() for f in self.pc), tuple(e.get_id() for e in extra))
        hit = self.check_cache.get(key)
        if hit is not None:
            return hit[0]
        r = self._check_sat(*extra)
        self.check_cache[key] = (r, list(self.pc), extra)  # keeps the ASTs (and their ids) alive
        return r

    def _check_sat(self, *extra):
        # fresh solvers per query: z3's incremental mode degraded badly after many push/pops
        if any(has_quant(e) for e in extra):
            r = z3.unknown
        else:
            s = z3.Solver()
            s.set('timeout', 60000)
            s.set('rlimit', 12_000_000)
            for f, q in zip(self.pc, self.pcq):
                if not q:
                    s.add(f)
            r = STATS.timed(lambda: s.check(*extra))
        if r == z3.unsat:
            return r
        if self.nquant or r == z3.unknown:
            s2 = z3.Solver()
            s2.set('rlimit', 300000)
            s2.set('smt.mbqi', False)
            for f in self.pc:
                s2.add(f)
            r2 = STATS.timed(lambda: s2.check(*extra))
            if r2 == z3.unsat:
                return r2
            if r == z3.unknown:
                STATS.unknown += 1
        return r

    def feasible(self, f):
        """may f hold on the current path? (unknown counts as feasible)"""
        f = concretize(f)
        if f is True:
            return True
        if f is False:
            return False
        return self.check_sat(f) != z3.unsat

    def valid(self, f):
        """does f hold on every model of the current path? (unknown -> False)"""
        f = concretize(f)
        if f is True:
            return True
        if f is False:
            return self.check_sat() == z3.unsat
        return self.check_sat(z3.Not(f)) == z3.unsat

    # -- fresh symbols ---------------------------------------------------------
    def fresh_name(self, hint):
        self.fresh_counter += 1
        tag = ''.join('T' if t else 'F' for fr in self.frames for t in fr.trace)
        return f'{hint}!{self.fresh_counter}{("@" + tag) if tag else ""}'

    def fresh_int(self, hint='i'):
        return z3.Int(self.fresh_name(hint))

    def fresh_bool(self, hint='b'):
        return z3.Bool(self.fresh_name(hint))

    def fresh_real(self, hint='r'):
        return z3.Real(self.fresh_name(hint))

    def fresh_const(self, hint, sort):
        return z3.Const(self.fresh_name(hint), sort)

    # -- branching -------------------------------------------------------------
    def branch(self, cond):
        """decide a (possibly symbolic) boolean; forks the current frame"""
        cond = concretize(cond)
        if isinstance(cond, bool):
            return cond
        if not is_sym_bool(cond):
            raise Unsupported(f'branch on non-bool {cond!r}')
        if not self.frames:
            raise Unsupported('symbolic branch outside exploration')
        fr = self.frames[-1]
        idx = len(fr.trace)
        if idx < len(fr.prefix):
            choice, forced = fr.prefix[idx]
        else:
            can_t = self.feasible(cond)
            can_f = self.feasible(z3.Not(cond))
            if can_t and can_f:
                choice, forced = True, False
                fr.alternatives.append(fr.trace + [(False, False)])
            elif can_t:
                choice, forced = True, True
            elif can_f:
                choice, forced = False, True
            else:
                raise PathEnd()
        fr.trace.append((choice, forced))
        c = cond if choice else z3.Not(cond)
        if not forced:
            self.pc_push(c)
            fr.conds.append(c)
        return choice

    def explore(self, thunk, merge=False):
        """enumerate the paths of thunk(); returns leaves
        [(conds, facts, kind, payload)] with kind in {'ok','raise'}"""
        fr = Frame(merge)
        self.frames.append(fr)
        leaves = []
        work = [[]]
        counter0 = self.fresh_counter
        maxc = counter0
        try:
            while work:
                self.path_count += 1
                if self.path_count > self.max_paths:
                    raise Unsupported('path budget exceeded')
                fr.prefix = work.pop()
                fr.trace = []
                fr.conds = []
                fr.alternatives = []
                fr.facts = []
                self.fresh_counter = counter0
                mark = self.pc_mark()
                try:
                    v = thunk()
                    leaves.append((list(fr.conds), list(fr.facts), 'ok', v))
                except PyRaise as e:
                    leaves.append((list(fr.conds), list(fr.facts), 'raise', e.exc))
                except PathEnd:
                    pass
                finally:
                    self.pc_reset(mark)
                    maxc = max(maxc, self.fresh_counter)
                work.extend(fr.alternatives)
        finally:
            self.frames.pop()
            self.fresh_counter = maxc
        return leaves


_hq_cache = {}


def has_quant(t):
    if not z3.is_expr(t):
        return False
    k = t.get_id()
    hit = _hq_cache.get(k)
    if hit is not None:
        return hit[0]
    if z3.is_quantifier(t):
        r = True
    else:
        r = any(has_quant(c) for c in t.children())
    _hq_cache[k] = (r, t)  # keep t alive: AST ids are recycled after garbage collection
    return r
