"""Program model objects: modules, classes, functions (built by executing module
bodies with the interpreter)."""
from __future__ import annotations

import ast
import z3

from .core import Unsupported


class ModuleModel:
    def __init__(self, name, path=None):
        self.name = name
        self.path = path
        self.ns = {}

    def __repr__(self):
        return f'<module {self.name}>'


class FunctionModel:
    def __init__(self, node, module, closure, qualname=None, cls=None):
        self.node = node  # ast.FunctionDef or ast.Lambda
        self.module = module
        self.closure = closure  # Env or None
        self.name = getattr(node, 'name', '<lambda>')
        self.qualname = qualname or self.name
        self.cls = cls
        self.defaults = None  # evaluated lazily at def time by interp
        self.kw_defaults = None
        self.decorators = []
        self.lru_cache = False

    def __repr__(self):
        return f'<function {self.qualname}>'


class BoundMethod:
    def __init__(self, func, self_val):
        self.func = func
        self.self_val = self_val

    def __repr__(self):
        return f'<bound {self.func} of {self.self_val!r}>'


class Builtin:
    """host-implemented callable: fn(interp, args, kwargs)"""

    def __init__(self, name, fn):
        self.name = name
        self.fn = fn

    def __repr__(self):
        return f'<builtin {self.name}>'


class Partial:
    def __init__(self, func, args, kwargs):
        self.func = func
        self.args = args
        self.kwargs = kwargs


class PropertyModel:
    def __init__(self, fget, fset=None):
        self.fget = fget
        self.fset = fset


class StaticMethod:
    def __init__(self, func):
        self.func = func


class ClassMethod:
    def __init__(self, func):
        self.func = func


class ClassModel:
    def __init__(self, name, bases, ns, module, qualname=None, kwargs=None):
        self.name = name
        self.qualname = qualname or name
        self.bases = bases
        self.ns = ns
        self.module = module
        self.kwargs = kwargs or {}
        self.is_enum = any(getattr(b, 'is_enum', False) for b in bases)
        self.is_dataclass = False
        self.dc_frozen = False
        self.dc_fields = None  # list of (name, default or MISSING)
        self.enum_members = None  # name -> EnumVal (canonical + aliases)
        self.enum_canon = None  # list of canonical names
        self.enum_sort = None
        self.enum_term_name = {}
        self.is_gridobject = False  # set by objmodel
        self.registry_index = None

    def mro(self):
        out = [self]
        for b in self.bases:
            if isinstance(b, ClassModel):
                for c in b.mro():
                    if c not in out:
                        out.append(c)
        return out

    def lookup(self, name):
        for c in self.mro():
            if name in c.ns:
                return c.ns[name], c
        return None, None

    def issubclass_of(self, other):
        return other in self.mro()

    def __repr__(self):
        return f'<class {self.qualname}>'


MISSING = object()


class Env:
    """Lexical environment for function bodies."""

    def __init__(self, parent=None, module=None):
        self.vars = {}
        self.parent = parent
        self.module = module
        self.globals_decl = set()

    def lookup(self, name):
        e = self
        while e is not None:
            if name in e.vars:
                return e.vars[name]
            e = e.parent
        raise KeyError(name)

    def has(self, name):
        e = self
        while e is not None:
            if name in e.vars:
                return True
            e = e.parent
        return False


_enum_sort_cache = {}


def make_enum_sort(qualname, names):
    key = (qualname, tuple(names))
    if key not in _enum_sort_cache:
        # z3 rejects duplicate datatype names in a context -> suffix with arity
        sort, consts = z3.EnumSort(qualname.replace('.', '_'), list(names))
        _enum_sort_cache[key] = (sort, consts)
    return _enum_sort_cache[key]
