"""Objects: classes, instances, attributes, calls, equality/identity; the z3
datatype for GridObject values is derived from grid_object.py's class bodies."""
from __future__ import annotations

import ast
import z3

from .core import (EXC, NOTIMPL, EnumVal, ExcClass, ExcVal, Gen, Instance, Opaque,
                   PathEnd, PyRaise, ReturnSignal, Rng, RowView, SArr, SClass, SList,
                   SObj, SSet, SymCallable, Unsupported, concretize, is_boollike,
                   is_intlike, is_numlike, is_sym_bool, is_z3, py_raise, zbool, zint,
                   zreal)
from .model import (MISSING, BoundMethod, Builtin, ClassMethod, ClassModel, Env,
                    FunctionModel, ModuleModel, Partial, PropertyModel, StaticMethod,
                    make_enum_sort)


class ObjView:
    """`self` of a GridObject method evaluated for one concrete class."""

    def __init__(self, term, cls, sobj=None):
        self.term = term
        self.cls = cls
        self.sobj = sobj


class ObjUnderConstruction:
    def __init__(self, cls):
        self.cls = cls
        self.fields = {}
        self.birth = 10 ** 12  # always "new" for purity checks


class SObjMethod:
    def __init__(self, sobj, name):
        self.sobj = sobj
        self.name = name


class ObjectsMixin:
    # --------------------------------------------------------------- classes
    def make_class(self, name, bases, ns, module, qual, kwargs):
        cls = ClassModel(name, bases, ns, module, qual, kwargs)
        for v in ns.values():
            fm = v.func if isinstance(v, (StaticMethod, ClassMethod)) else (v.fget if isinstance(v, PropertyModel) else v)
            if isinstance(fm, FunctionModel) and fm.cls is None:
                fm.cls = cls
            if isinstance(v, PropertyModel) and isinstance(v.fset, FunctionModel):
                v.fset.cls = cls
        if cls.is_enum and name != 'Enum':
            self.finish_enum(cls)
        # __init_subclass__ hook of (interpreted) bases
        for b in cls.mro()[1:]:
            if isinstance(b, ClassModel) and '__init_subclass__' in b.ns:
                f = b.ns['__init_subclass__']
                if isinstance(f, ClassMethod):
                    f = f.func
                kw = {k: v for k, v in kwargs.items() if k != 'metaclass'}
                self.call(BoundMethod(f, cls), [], kw)
                break
        return cls

    def finish_enum(self, cls):
        members = {}
        canon = []
        by_value = {}
        ann_skip = ('__annotations__',)
        last = None
        raw = []
        for k, v in list(cls.ns.items()):
            if k.startswith('_') or k in ann_skip:
                continue
            if isinstance(v, (FunctionModel, PropertyModel, StaticMethod, ClassMethod, ClassModel)):
                continue
            raw.append((k, v))
        values = {}
        for k, v in raw:
            if isinstance(v, Opaque) and v.name == 'enum.auto':
                v = (last + 1) if last is not None else 1
            if isinstance(v, EnumVal):
                raise Unsupported('enum alias to other enum')
            if isinstance(v, int):
                last = v
            hv = v
            if hv in by_value:
                members[k] = by_value[hv]  # alias
            else:
                by_value[hv] = k
                members[k] = k
                canon.append(k)
                values[k] = v
        sort, consts = make_enum_sort(f'{cls.module.name.split(".")[-1]}.{cls.qualname}', canon)
        cls.enum_sort = sort
        cls.enum_canon = canon
        cls.enum_values = values
        cls.enum_consts = dict(zip(canon, consts))
        cls.enum_term_name = {c.get_id(): n for n, c in cls.enum_consts.items()}
        cls.enum_members = {}
        for k, target in members.items():
            ev = EnumVal(cls, cls.enum_consts[target])
            cls.enum_members[k] = ev
            cls.ns[k] = ev

    def enum_value_of(self, ev):
        n = ev.concrete_name()
        cls = ev.cls
        if n is not None:
            return cls.enum_values[n]
        vals = [cls.enum_values[k] for k in cls.enum_canon]
        r = vals[-1]
        for k in reversed(cls.enum_canon[:-1]):
            r = self.merge(ev.term == cls.enum_consts[k], cls.enum_values[k], r)
        return r

    def fresh_enum(self, cls, hint):
        return EnumVal(cls, self.fresh_const(hint, cls.enum_sort))

    def apply_dataclass(self, cls, frozen=False, **kw):
        cls.is_dataclass = True
        cls.dc_frozen = bool(frozen)
        fields = []
        for c in reversed(cls.mro()):
            if not getattr(c, 'is_dataclass', False) and c is not cls:
                continue
            for fname in c.ns.get('__annotations__', {}):
                default = c.ns.get(fname, MISSING)
                fields = [(n, d) for n, d in fields if n != fname] + [(fname, default)]
        cls.dc_fields = fields
        return cls

    # ----------------------------------------------------------- instantiation
    def instantiate(self, cls, args, kwargs):
        if cls.is_enum:
            # Enum(value) lookup
            if len(args) == 1:
                v = args[0]
                for k in cls.enum_canon:
                    if cls.enum_values[k] == v:
                        return cls.enum_members[k]
                py_raise('ValueError', 'not a valid enum value')
            raise Unsupported('enum call')
        if cls.is_gridobject:
            return self.objmodel.construct(cls, args, kwargs)
        h = self.special_instantiate(cls, args, kwargs)
        if h is not NOTIMPL:
            return h
        inst = Instance(cls)
        init, owner = cls.lookup('__init__')
        if cls.is_dataclass and (init is None or not isinstance(init, FunctionModel)):
            names = [n for n, _ in cls.dc_fields]
            vals = dict(zip(names, args))
            if len(args) > len(names):
                py_raise('TypeError', 'too many arguments')
            for k, v in kwargs.items():
                if k not in names or k in vals:
                    py_raise('TypeError', f'unexpected argument {k}')
                vals[k] = v
            for n, d in cls.dc_fields:
                if n not in vals:
                    if d is MISSING:
                        py_raise('TypeError', f'missing argument {n}')
                    vals[n] = d
            inst.fields.update(vals)
            post, _ = cls.lookup('__post_init__')
            if post is not None:
                self.call(BoundMethod(post, inst), [], {})
            inst.frozen = cls.dc_frozen
            return inst
        if init is not None and isinstance(init, FunctionModel):
            self.call(BoundMethod(init, inst), args, kwargs)
        elif args or kwargs:
            if init is None:
                py_raise('TypeError', 'object() takes no arguments')
            self.call(BoundMethod(init, inst), args, kwargs)
        return inst

    def special_instantiate(self, cls, args, kwargs):
        return NOTIMPL

    # -------------------------------------------------------------- attributes
    def getattr_(self, obj, name):
        if isinstance(obj, Instance):
            return self.instance_getattr(obj, name)
        if isinstance(obj, SObj):
            return self.objmodel.sobj_getattr(obj, name)
        if isinstance(obj, ObjView):
            return self.objmodel.view_getattr(obj, name)
        if isinstance(obj, ObjUnderConstruction):
            if name in obj.fields:
                return obj.fields[name]
            return self.class_attr_for_instance(obj.cls, obj, name)
        if isinstance(obj, ClassModel):
            return self.class_getattr(obj, name)
        if isinstance(obj, EnumVal):
            if name == 'value':
                return self.enum_value_of(obj)
            if name == 'name':
                n = obj.concrete_name()
                if n is None:
                    raise Unsupported('name of symbolic enum')
                return n
            return self.class_attr_for_instance(obj.cls, obj, name)
        if isinstance(obj, ModuleModel):
            return self.module_getattr(obj, name)
        if isinstance(obj, ExcVal):
            if name == 'args':
                return obj.args
            py_raise('AttributeError', name)
        if isinstance(obj, FunctionModel):
            if name == '__name__':
                return obj.name
            py_raise('AttributeError', name)
        if isinstance(obj, SClass):
            return self.objmodel.sclass_getattr(obj, name)
        from .loops import NS
        if isinstance(obj, NS):
            if name in obj.d:
                return obj.d[name]
            py_raise('AttributeError', name)
        r = self.ext_getattr(obj, name)
        if r is not NOTIMPL:
            return r
        if isinstance(obj, Opaque):
            return Opaque(f'{obj.name}.{name}')
        py_raise('AttributeError', f'{type(obj).__name__}.{name}')

    def instance_getattr(self, inst, name):
        if name in inst.fields:
            return inst.fields[name]
        if name == '__class__':
            return inst.cls
        return self.class_attr_for_instance(inst.cls, inst, name)

    def class_attr_for_instance(self, cls, inst, name):
        v, owner = cls.lookup(name)
        if owner is None:
            r = self.ext_class_attr(cls, inst, name)
            if r is not NOTIMPL:
                return r
            py_raise('AttributeError', f'{cls.name}.{name}')
        if isinstance(v, PropertyModel):
            return self.call(v.fget, [inst], {})
        if isinstance(v, FunctionModel):
            return BoundMethod(v, inst)
        if isinstance(v, Builtin) and getattr(v, 'is_method', False):
            return BoundMethod(v, inst)
        if isinstance(v, StaticMethod):
            return v.func
        if isinstance(v, ClassMethod):
            return BoundMethod(v.func, cls)
        return v

    def class_getattr(self, cls, name):
        if name == '__name__':
            return cls.name
        v, owner = cls.lookup(name)
        if owner is None:
            r = self.ext_class_attr(cls, None, name)
            if r is not NOTIMPL:
                return r
            py_raise('AttributeError', f'{cls.name}.{name}')
        if isinstance(v, StaticMethod):
            return v.func
        if isinstance(v, ClassMethod):
            return BoundMethod(v.func, cls)
        return v

    def setattr_(self, obj, name, value):
        if isinstance(obj, Instance):
            v, owner = obj.cls.lookup(name)
            if isinstance(v, PropertyModel):
                if v.fset is None:
                    py_raise('AttributeError', f"can't set {name}")
                self.call(v.fset, [obj, value], {})
                return
            if obj.frozen:
                # dataclasses.FrozenInstanceError is an AttributeError
                py_raise('AttributeError', f'cannot assign to field {name}')
            self.check_write(obj)
            self.note_write(obj, name)
            obj.fields[name] = value
            return
        if isinstance(obj, ObjUnderConstruction):
            obj.fields[name] = value
            return
        if isinstance(obj, SObj):
            return self.objmodel.sobj_setattr(obj, name, value)
        if isinstance(obj, ModuleModel):
            self.note_effect('global_write', f'{obj.name}.{name}')
            obj.ns[name] = value
            return
        if isinstance(obj, ClassModel):
            self.note_effect('global_write', f'{obj.qualname}.{name}')
            obj.ns[name] = value
            return
        raise Unsupported(f'setattr on {type(obj).__name__}')

    def mark_cached(self, v, owner, depth=0):
        """results of lru_cache'd functions are shared between callers: writing to them is an effect"""
        if depth > 3:
            return
        if isinstance(v, (Instance, SList, SArr)):
            v.cached_by = owner
            if isinstance(v, Instance):
                for x in v.fields.values():
                    self.mark_cached(x, owner, depth + 1)
        elif isinstance(v, list):
            self.cached_lists[id(v)] = (owner, v)
            for x in v:
                self.mark_cached(x, owner, depth + 1)

    def note_write(self, obj, key):
        owner = getattr(obj, 'cached_by', None)
        if owner is None and isinstance(obj, list):
            rec = self.cached_lists.get(id(obj))
            owner = rec[0] if rec is not None and rec[1] is obj else None
        if owner is not None:
            self.note_effect('cache_write', f'write into a result of the memoised function {owner}')
        if self.write_log is not None:
            self.write_log.append((obj, key))

    # ------------------------------------------------------------------- calls
    def call(self, f, args, kwargs, node=None):
        if isinstance(f, FunctionModel):
            return self.call_function(f, args, kwargs)
        if isinstance(f, BoundMethod):
            return self.call(f.func, [f.self_val] + list(args), kwargs)
        if isinstance(f, Builtin):
            return f.fn(self, list(args), dict(kwargs))
        if isinstance(f, ClassModel):
            return self.instantiate(f, args, kwargs)
        if isinstance(f, Partial):
            kw = dict(f.kwargs)
            kw.update(kwargs)
            return self.call(f.func, list(f.args) + list(args), kw)
        if isinstance(f, ExcClass):
            return ExcVal(f, tuple(args))
        if isinstance(f, StaticMethod):
            return self.call(f.func, args, kwargs)
        if isinstance(f, SObjMethod):
            return self.objmodel.call_sobj_method(f, args, kwargs)
        if isinstance(f, SymCallable):
            return f.handler(self, f, list(args), dict(kwargs))
        if isinstance(f, SClass):
            return self.objmodel.construct_symbolic_class(f, args, kwargs)
        if isinstance(f, Instance):
            m, _ = f.cls.lookup('__call__')
            if m is not None:
                return self.call(BoundMethod(m, f), args, kwargs)
        from .lib import BuiltinType, ListMethod
        if isinstance(f, BuiltinType):
            return self.call_builtin_type(f, list(args), dict(kwargs))
        if isinstance(f, ListMethod):
            return self.call_list_method(f, list(args), dict(kwargs))
        if isinstance(f, SClassMethod):
            return self.objmodel.call_sclass_method(f, args, kwargs)
        if isinstance(f, Opaque):
            if self.func_stack and self.func_stack[-1].startswith('<module'):
                return Opaque(f'{f.name}(...)')
            raise Unsupported(f'call of unmodelled {f.name}')
        raise Unsupported(f'call of {type(f).__name__}')

    def call_function(self, f, args, kwargs, skip_hook=False, capture=None):
        hook = self.contract_hooks.get(f) if (self.contract_hooks and not skip_hook) else None
        if hook is not None:
            r = hook(self, f, args, kwargs)
            if r is not NOTIMPL:
                return r
        if f.name in self.skip_methods and f.name == 'check_signature':
            self.dropped.add(f.qualname)
            return None
        node = f.node
        a = node.args
        env = Env(parent=f.closure, module=f.module)
        params = [p.arg for p in a.posonlyargs + a.args]
        args = list(args)
        kwargs = dict(kwargs)
        nd = len(f.defaults)
        for i, p in enumerate(params):
            if i < len(args):
                if p in kwargs:
                    py_raise('TypeError', f'multiple values for {p}')
                env.vars[p] = args[i]
            elif p in kwargs:
                env.vars[p] = kwargs.pop(p)
            else:
                di = i - (len(params) - nd)
                if di < 0:
                    py_raise('TypeError', f'{f.name}() missing argument {p}')
                env.vars[p] = f.defaults[di]
        extra = args[len(params):]
        if a.vararg:
            env.vars[a.vararg.arg] = tuple(extra)
        elif extra:
            py_raise('TypeError', f'{f.name}() takes {len(params)} positional arguments')
        for i, p in enumerate(a.kwonlyargs):
            if p.arg in kwargs:
                env.vars[p.arg] = kwargs.pop(p.arg)
            elif f.kw_has_default[i]:
                env.vars[p.arg] = f.kw_defaults[i]
            else:
                py_raise('TypeError', f'{f.name}() missing keyword argument {p.arg}')
        if a.kwarg:
            env.vars[a.kwarg.arg] = kwargs
        elif kwargs:
            py_raise('TypeError', f'{f.name}() got unexpected keyword {list(kwargs)[0]}')
        if isinstance(node, ast.Lambda):
            return self.eval(node.body, env)
        if f.cls is not None:
            env.vars['__class__'] = f.cls
            if args:
                env.vars['__firstarg__'] = args[0]
        self.call_depth += 1
        if self.call_depth > 200:
            raise Unsupported('recursion depth')
        self.func_stack.append(f.qualname)
        self.fn_stack.append(f)
        try:
            self.exec_block(node.body, env)
        except ReturnSignal as r:
            if f.lru_cache:
                self.mark_cached(r.value, f.qualname)
            return r.value
        finally:
            self.call_depth -= 1
            self.func_stack.pop()
            self.fn_stack.pop()
            if capture is not None:
                capture.clear()
                capture.update(env.vars)
        return None

    def call_dunder(self, obj, name, args, missing_ok=False):
        m = None
        if isinstance(obj, Instance):
            v, owner = obj.cls.lookup(name)
            if owner is not None:
                m = BoundMethod(v, obj) if isinstance(v, FunctionModel) else None
        elif isinstance(obj, EnumVal):
            v, owner = obj.cls.lookup(name)
            if owner is not None and isinstance(v, FunctionModel):
                m = BoundMethod(v, obj)
        elif isinstance(obj, SObj):
            v, owner = self.objmodel.base.lookup(name)
            if owner is not None and isinstance(v, FunctionModel):
                m = BoundMethod(v, obj)
        if m is None:
            if missing_ok:
                return NOTIMPL
            py_raise('TypeError', f'no {name}')
        return self.call(m, args, {})

    # ------------------------------------------------------ identity / equality
    def identical(self, a, b):
        if isinstance(a, EnumVal) and isinstance(b, EnumVal):
            if a.cls is not b.cls:
                return False
            return concretize(a.term == b.term)
        if a is None or b is None:
            return a is b
        if self.is_gridobject_class(a) and self.is_gridobject_class(b):
            return concretize(self.class_term(a) == self.class_term(b))
        if isinstance(a, bool) or isinstance(b, bool):
            if is_boollike(a) and is_boollike(b):
                return concretize(zbool(a) == zbool(b))
            return False
        if isinstance(a, SObj) or isinstance(b, SObj):
            if a is b:
                return True
            raise Unsupported('identity of grid objects')
        if is_z3(a) or is_z3(b):
            raise Unsupported('identity on symbolic numbers')
        return a is b

    def equals(self, a, b):
        if is_boollike(a) and is_boollike(b):
            if isinstance(a, bool) and isinstance(b, bool):
                return a == b
            return concretize(zbool(a) == zbool(b))
        if is_numlike(a) and is_numlike(b) or (is_boollike(a) and is_numlike(b)) or (is_numlike(a) and is_boollike(b)):
            if isinstance(a, (int, float)) and isinstance(b, (int, float)):
                return a == b
            if is_boollike(a) and is_boollike(b):
                return concretize(zbool(a) == zbool(b))
            real = any(isinstance(x, float) or (isinstance(x, z3.ArithRef) and x.is_real()) for x in (a, b))
            if real:
                return concretize(zreal(a) == zreal(b))
            return concretize(zint(a) == zint(b))
        if isinstance(a, EnumVal) or isinstance(b, EnumVal):
            if isinstance(a, EnumVal) and isinstance(b, EnumVal) and a.cls is b.cls:
                return concretize(a.term == b.term)
            return False
        if a is None or b is None:
            return a is b
        if isinstance(a, str) or isinstance(b, str):
            return isinstance(a, str) and isinstance(b, str) and a == b
        if isinstance(a, (tuple, list)) and isinstance(b, (tuple, list)):
            if type(a) is not type(b) or len(a) != len(b):
                return False
            acc = True
            for x, y in zip(a, b):
                e = self.truth_term(self.equals(x, y))
                if e is False:
                    return False
                if e is not True:
                    acc = e if acc is True else z3.And(acc, e)
            return acc
        if isinstance(a, SObj) and isinstance(b, SObj):
            eq, _ = self.objmodel.base.lookup('__eq__')
            return self.call(eq, [a, b], {})
        if isinstance(a, SObj) or isinstance(b, SObj):
            return False
        if self.is_gridobject_class(a) and self.is_gridobject_class(b):
            return concretize(self.class_term(a) == self.class_term(b))
        if isinstance(a, Instance):
            r = self.instance_eq(a, b)
            if r is not NOTIMPL:
                return r
            if isinstance(b, Instance):
                r = self.instance_eq(b, a)
                if r is not NOTIMPL:
                    return r
            return a is b
        if isinstance(b, Instance):
            r = self.instance_eq(b, a)
            return False if r is NOTIMPL else r
        r = self.ext_equals(a, b)
        if r is not NOTIMPL:
            return r
        if isinstance(a, (ClassModel, FunctionModel, ExcClass, Builtin, ModuleModel)):
            return a is b
        if isinstance(a, (set, frozenset)) and isinstance(b, (set, frozenset)):
            return a == b
        if isinstance(a, dict) and isinstance(b, dict):
            return a == b
        raise Unsupported(f'== on {type(a).__name__},{type(b).__name__}')

    def instance_eq(self, a, b):
        f, owner = a.cls.lookup('__eq__')
        if isinstance(f, FunctionModel):
            return self.call(f, [a, b], {})
        if a.cls.is_dataclass:
            if not (isinstance(b, Instance) and b.cls is a.cls):
                return NOTIMPL
            acc = True
            for n, _ in a.cls.dc_fields:
                e = self.truth_term(self.equals(a.fields[n], b.fields[n]))
                if e is False:
                    return False
                if e is not True:
                    acc = e if acc is True else z3.And(acc, e)
            return acc
        return NOTIMPL

    def is_gridobject_class(self, v):
        return isinstance(v, SClass) or (isinstance(v, ClassModel) and v.is_gridobject and v.registry_index is not None)

    def class_term(self, v):
        if isinstance(v, SClass):
            return v.term
        return self.objmodel.cls_consts[v.name]

    # ---------------------------------------------------------------- isinstance
    def isinstance_(self, obj, cls):
        if isinstance(cls, tuple):
            acc = False
            for c in cls:
                r = self.truth_term(self.isinstance_(obj, c))
                if r is True:
                    return True
                if r is not False:
                    acc = r if acc is False else z3.Or(acc, r)
            return acc
        if isinstance(obj, (SObj, ObjView)):
            return self.objmodel.isinstance_obj(obj, cls)
        if isinstance(obj, Instance):
            return isinstance(cls, ClassModel) and obj.cls.issubclass_of(cls)
        if isinstance(obj, EnumVal):
            return isinstance(cls, ClassModel) and obj.cls.issubclass_of(cls)
        if isinstance(cls, ExcClass):
            return isinstance(obj, ExcVal) and obj.cls.issub(cls)
        if isinstance(obj, ExcVal):
            return False
        b = self.builtin_type_check(obj, cls)
        if b is not NOTIMPL:
            return b
        if isinstance(cls, ClassModel):
            return False
        raise Unsupported(f'isinstance({type(obj).__name__}, {cls!r})')


class ObjModel:
    """z3 datatype `Obj` for GridObject values, derived from the class bodies."""

    def __init__(self, interp, module):
        self.I = interp
        self.module = module
        reg = module.ns['grid_object_registry']
        self.classes = list(reg.fields['data'])
        self.base = module.ns['GridObject']
        self.base.is_gridobject = True
        self.color_cls = module.ns['Color']
        names = [c.name for c in self.classes]
        self.cls_sort, consts = z3.EnumSort('Cls', names)
        self.cls_consts = dict(zip(names, consts))
        self.cls_by_name = dict(zip(names, self.classes))
        self.fields = {}
        dt = z3.Datatype('Obj')
        for i, c in enumerate(self.classes):
            c.is_gridobject = True
            c.registry_index = i
            fl = self.init_fields(c)
            self.fields[c.name] = fl
        # declare
        for c in self.classes:
            decl = []
            for fname, sort_desc in self.fields[c.name]:
                s = dt if sort_desc == 'Obj' else sort_desc.enum_sort
                decl.append((f'{c.name}_{fname}', s))
            dt.declare(c.name, *decl)
        self.sort = dt.create()
        self.ctor = {}
        self.recog = {}
        self.acc = {}
        for i, c in enumerate(self.classes):
            self.ctor[c.name] = self.sort.constructor(i)
            self.recog[c.name] = self.sort.recognizer(i)
            for j, (fname, _) in enumerate(self.fields[c.name]):
                self.acc[(c.name, fname)] = self.sort.accessor(i, j)
        self.hash_fn = z3.Function('py_hash3', z3.IntSort(), z3.IntSort(), self.color_cls.enum_sort, z3.IntSort())

    def init_fields(self, c):
        """instance fields = attributes assigned from parameters in __init__"""
        init, owner = c.lookup('__init__')
        out = []
        if not isinstance(init, FunctionModel):
            return out
        params = {}
        a = init.node.args
        for p in a.args[1:]:
            params[p.arg] = p.annotation
        for st in ast.walk(init.node):
            if isinstance(st, ast.Assign) and len(st.targets) == 1:
                t = st.targets[0]
                if isinstance(t, ast.Attribute) and isinstance(t.value, ast.Name) and t.value.id == 'self':
                    if isinstance(st.value, ast.Name) and st.value.id in params:
                        ann = params[st.value.id]
                        out.append((t.attr, self.sort_of_annotation(ann, init)))
                    else:
                        raise Unsupported(f'{c.name}.__init__: field {t.attr} not assigned from a parameter')
        return out

    def sort_of_annotation(self, ann, fn):
        src = ast.unparse(ann) if ann is not None else ''
        src = src.strip("'\"")
        if src == 'GridObject':
            return 'Obj'
        env = Env(module=fn.module)
        env.vars = fn.module.ns
        try:
            v = self.I.eval(ast.parse(src, mode='eval').body, env)
        except Exception as e:
            raise Unsupported(f'field annotation {src}: {e}')
        if isinstance(v, ClassModel) and v.is_enum:
            return v
        raise Unsupported(f'field sort {src}')

    # construction -----------------------------------------------------------
    def wrap_field(self, desc, term):
        if desc == 'Obj':
            return SObj(term)
        return EnumVal(desc, term)

    def unwrap_field(self, desc, v):
        if desc == 'Obj':
            if not isinstance(v, SObj):
                raise Unsupported('non-object field value')
            return v.term
        if isinstance(v, EnumVal) and v.cls is desc:
            return v.term
        raise Unsupported(f'field value {v!r} for {desc}')

    def construct(self, cls, args, kwargs):
        if cls.registry_index is None:
            py_raise('TypeError', 'abstract class')
        I = self.I
        init, owner = cls.lookup('__init__')
        uc = ObjUnderConstruction(cls)
        if isinstance(init, FunctionModel):
            I.call(init, [uc] + list(args), kwargs)
        elif args or kwargs:
            py_raise('TypeError', 'takes no arguments')
        vals = []
        for fname, desc in self.fields[cls.name]:
            if fname not in uc.fields:
                raise Unsupported(f'{cls.name}: field {fname} unset')
            vals.append(self.unwrap_field(desc, uc.fields[fname]))
        return SObj(self.ctor[cls.name](*vals))

    def construct_symbolic_class(self, sc, args, kwargs):
        # factory() with a symbolic class: only no-arg classes
        I = self.I
        res = None
        for c in reversed(self.classes):
            cond = sc.term == self.cls_consts[c.name]
            if not I.feasible(cond):
                continue
            if self.fields[c.name]:
                raise Unsupported('symbolic class with constructor arguments')
            v = SObj(self.ctor[c.name]())
            res = v if res is None else I.merge(cond, v, res)
        if res is None:
            raise PathEnd()
        return res

    def cls_of(self, term):
        t = z3.simplify(term)
        r = self.cls_consts[self.classes[-1].name]
        for c in reversed(self.classes[:-1]):
            r = z3.If(self.recog[c.name](t), self.cls_consts[c.name], r)
        return z3.simplify(r)

    def known_class(self, term):
        t = z3.simplify(term)
        if z3.is_app(t) and t.decl().kind() == z3.Z3_OP_DT_CONSTRUCTOR:
            return self.cls_by_name[t.decl().name()], t
        return None, t

    # attribute access ---------------------------------------------------------
    def view_getattr(self, view, name):
        I = self.I
        cls = view.cls
        for fname, desc in self.fields[cls.name]:
            if fname == name:
                t = z3.simplify(self.acc[(cls.name, fname)](view.term))
                v = self.wrap_field(desc, t)
                if isinstance(v, SObj) and view.sobj is not None:
                    v.loc = None
                return v
        if name == '__class__':
            return cls
        return I.class_attr_for_instance(cls, view, name)

    def sobj_getattr(self, sobj, name):
        I = self.I
        self.check_stamp(sobj)
        kc, t = self.known_class(sobj.term)
        if kc is not None:
            return self.view_getattr(ObjView(t, kc, sobj), name)
        if name == '__class__':
            return SClass(self.cls_of(t))
        # which classes have this attribute as a method?
        kinds = set()
        for c in self.classes:
            v, owner = c.lookup(name)
            if any(f == name for f, _ in self.fields[c.name]):
                kinds.add('field')
            elif owner is None:
                kinds.add('missing')
            elif isinstance(v, (FunctionModel, ClassMethod, StaticMethod)):
                kinds.add('method')
            else:
                kinds.add('value')
        if kinds == {'method'}:
            return SObjMethod(sobj, name)
        res = None
        first = True
        for c in reversed(self.classes):
            cond = self.recog[c.name](t)
            hasf = any(f == name for f, _ in self.fields[c.name])
            v, owner = c.lookup(name)
            if not hasf and owner is None:
                # AttributeError on this class: must be infeasible, else fork
                if I.feasible(cond):
                    if I.branch(cond):
                        py_raise('AttributeError', f'{c.name}.{name}')
                continue
            if isinstance(v, PropertyModel) and not hasf:
                val = I.pure(lambda c=c: I.call(v.fget, [ObjView(t, c, sobj)], {}), cond)
            else:
                val = self.view_getattr(ObjView(t, c, sobj), name)
            from .interp import DEAD
            if val is DEAD:
                continue
            res = val if res is None else I.merge(cond, val, res)
        if res is None:
            raise PathEnd()
        return res

    def call_sobj_method(self, m, args, kwargs):
        I = self.I
        sobj = m.sobj
        t = z3.simplify(sobj.term)
        res = None
        from .interp import DEAD
        for c in reversed(self.classes):
            cond = self.recog[c.name](t)
            val = I.pure(lambda c=c: I.call(self.view_getattr(ObjView(t, c, sobj), m.name), args, kwargs), cond)
            if val is DEAD:
                continue
            res = val if res is None else I.merge(cond, val, res)
        if res is None:
            raise PathEnd()
        return res

    def sclass_getattr(self, sc, name):
        I = self.I
        res = None
        if name == '__name__':
            raise Unsupported('name of symbolic class')
        for c in reversed(self.classes):
            cond = sc.term == self.cls_consts[c.name]
            v = I.class_getattr(c, name)
            if isinstance(v, BoundMethod):
                return SClassMethod(sc, name)
            res = v if res is None else I.merge(cond, v, res)
        return res

    def call_sclass_method(self, m, args, kwargs):
        I = self.I
        res = None
        from .interp import DEAD
        for c in reversed(self.classes):
            cond = m.sc.term == self.cls_consts[c.name]
            val = I.pure(lambda c=c: I.call(I.class_getattr(c, m.name), args, kwargs), cond)
            if val is DEAD:
                continue
            res = val if res is None else I.merge(cond, val, res)
        if res is None:
            raise PathEnd()
        return res

    def check_stamp(self, sobj):
        if sobj.loc is not None and sobj.stamp is not None:
            cont = sobj.loc[1]
            if getattr(cont, 'version', 0) != sobj.stamp:
                # value may be stale only if someone mutated an object in place
                raise Unsupported('read through a reference after an in-place object mutation')

    def sobj_setattr(self, sobj, name, value):
        I = self.I
        self.check_stamp(sobj)
        t = z3.simplify(sobj.term)
        owners = [c for c in self.classes if any(f == name for f, _ in self.fields[c.name])]
        target = None
        for c in owners:
            if I.valid(self.recog[c.name](t)):
                target = c
        if target is None:
            raise Unsupported(f'attribute store .{name} on object of unknown class')
        vals = []
        for fname, desc in self.fields[target.name]:
            if fname == name:
                vals.append(self.unwrap_field(desc, value))
            else:
                vals.append(self.acc[(target.name, fname)](t))
        new = z3.simplify(self.ctor[target.name](*vals))
        sobj.term = new
        if sobj.loc is None:
            return
        kind = sobj.loc[0]
        if kind == 'cell':
            _, parent, i, j = sobj.loc
            I.check_write(parent)
            I.note_write(parent, ('cell', i, j))
            parent.cellwrites.append((i, j, SObj(new)))
            parent.version += 1
            sobj.stamp = parent.version
        elif kind == 'attr':
            _, inst, fname = sobj.loc
            I.check_write(inst)
            I.note_write(inst, fname)
            inst.fields[fname] = SObj(new)
        else:
            raise Unsupported('store through unknown location')

    def isinstance_obj(self, obj, cls):
        I = self.I
        t = z3.simplify(obj.term)
        if isinstance(cls, SClass):
            return concretize(self.cls_of(t) == cls.term)
        if not isinstance(cls, ClassModel):
            return False
        if cls is self.base:
            return True
        if isinstance(obj, ObjView):
            return obj.cls.issubclass_of(cls)
        if cls.registry_index is None:
            # intermediate base class
            subs = [c for c in self.classes if c.issubclass_of(cls)]
            if not subs:
                return False
            return concretize(z3.Or(*[self.recog[c.name](t) for c in subs]))
        subs = [c for c in self.classes if c.issubclass_of(cls)]
        return concretize(z3.Or(*[self.recog[c.name](t) for c in subs]))

    def fresh_obj(self, hint):
        return SObj(self.I.fresh_const(hint, self.sort))

    def fresh_class(self, hint):
        return SClass(self.I.fresh_const(hint, self.cls_sort))


class SClassMethod:
    def __init__(self, sc, name):
        self.sc = sc
        self.name = name
