"""Containers: lists with symbolic length, generator views, arrays, indexing,
iteration, comprehensions."""
from __future__ import annotations

import ast
import z3

from .core import (NOTIMPL, EnumVal, Gen, Instance, Opaque, PathEnd, PyRaise, RowView,
                   SArr, SClass, SList, SObj, SSet, Unsupported, concretize,
                   is_boollike, is_intlike, is_sym_int, is_z3, py_raise, zbool, zint)
from .model import BoundMethod, ClassModel, Env, FunctionModel


class SRange:
    def __init__(self, lo, hi):
        self.lo = lo
        self.hi = hi


class CSet:
    """concrete-cardinality set (list of distinct values)"""

    def __init__(self, items):
        self.items = items
        self.birth = 0


class Part:
    """one comprehension clause set: { elem | vars in ranges, filt }"""

    def __init__(self, ranges, filt, elem):
        self.ranges = ranges  # list of (var, lo, hi)  (lo <= var < hi)
        self.filt = filt      # BoolRef / True
        self.elem = elem

    @property
    def vars(self):
        return [v for v, _, _ in self.ranges]

    def guard(self):
        cs = []
        for v, lo, hi in self.ranges:
            cs.append(zint(lo) <= v)
            cs.append(v < zint(hi))
        if self.filt is not True:
            cs.append(self.filt)
        return concretize(z3.And(*cs)) if cs else True


class GenList:
    """list(generator view) kept as a view; F-view symbols created on demand"""

    def __init__(self, gen):
        self.gen = gen
        self.fv = None
        self.birth = 0


def zsubst(t, pairs):
    return z3.substitute(t, *pairs) if pairs else t


class SeqMixin:
    # ------------------------------------------------------------ substitution
    def subst_value(self, v, pairs):
        if not pairs:
            return v
        pairs = [(a, (z3.IntVal(b) if isinstance(b, int) else b)) for a, b in pairs]
        if is_z3(v):
            return concretize(z3.substitute(v, *pairs))
        if isinstance(v, SObj):
            return SObj(z3.substitute(v.term, *pairs))
        if isinstance(v, EnumVal):
            return EnumVal(v.cls, z3.simplify(z3.substitute(v.term, *pairs)))
        if isinstance(v, SClass):
            return SClass(z3.substitute(v.term, *pairs))
        if isinstance(v, tuple):
            return tuple(self.subst_value(x, pairs) for x in v)
        if isinstance(v, list):
            return [self.subst_value(x, pairs) for x in v]
        if isinstance(v, Instance):
            if not (v.cls.is_dataclass and v.frozen):
                raise Unsupported('template over mutable instance')
            r = Instance(v.cls, {k: self.subst_value(x, pairs) for k, x in v.fields.items()})
            r.frozen = True
            return r
        if isinstance(v, SList):
            fz = v.frozen_copy()
            n = self.subst_value(fz.n, pairs)
            r = SList(n, lambda i, fz=fz: self.subst_value(self.slist_read(fz, i, raw=True), pairs), fz.is_tuple)
            return r
        if isinstance(v, SRange):
            return SRange(self.subst_value(v.lo, pairs), self.subst_value(v.hi, pairs))
        if isinstance(v, Gen):
            return Gen([Part([(var, self.subst_value(lo, pairs), self.subst_value(hi, pairs)) for var, lo, hi in p.ranges],
                             self.subst_value(p.filt, pairs), self.subst_value(p.elem, pairs)) for p in v.parts])
        if isinstance(v, SArr):
            fz = v
            w = list(v.writes)
            return SArr(self.subst_value(v.h, pairs), self.subst_value(v.w, pairs),
                        lambda i, j: self.subst_value(self.sarr_read(fz, i, j, w), pairs), v.kind)
        return v

    # ------------------------------------------------------------------ indexing
    def norm_index(self, idx, n):
        """python index normalisation with IndexError branch; returns index in [0,n)"""
        if isinstance(idx, bool):
            idx = int(idx)
        if isinstance(idx, int) and isinstance(n, int):
            if -n <= idx < n:
                return idx % n if n else idx
            py_raise('IndexError', 'index out of range')
        if not is_intlike(idx):
            py_raise('TypeError', 'indices must be integers')
        zi, zn = zint(idx), zint(n)
        ok = z3.And(zi >= -zn, zi < zn)
        if not self.branch(ok):
            py_raise('IndexError', 'index out of range')
        if isinstance(idx, int):
            return idx if idx >= 0 else concretize(zn + idx)
        # keep index terms free of if-then-else when the sign is known (matchable by E-matching)
        if self.valid(zi >= 0):
            return idx
        if self.valid(zi < 0):
            return concretize(zi + zn)
        return concretize(z3.If(zi < 0, zi + zn, zi))

    def eq_term(self, a, b):
        t = self.truth_term(self.equals(a, b))
        return t

    def is_2d(self, L):
        probe = L.elem(z3.Int('probe!2d'))
        return isinstance(probe, (SList, list))

    def slist_read(self, L, i, raw=False):
        base = L.elem(i)
        if isinstance(base, (SList, list)):
            if raw:
                return self.row_snapshot(L, i)
            return RowView(L, i, base)
        r = base
        for wi, v in L.writes:
            r = self.merge(self.eq_term(wi, i), v, r)
        return r

    def inner_len(self, inner):
        return inner.n if isinstance(inner, SList) else len(inner)

    def cell_read(self, parent, i, j, cellwrites=None):
        if self.read_log is not None and getattr(parent, 'track', False):
            # guard: what is assumed at the moment of the read beyond the facts at body start
            guard = list(self.pc[self.read_base:])
            self.read_log.append((parent, i, j, guard))
        inner = parent.elem(i)
        if isinstance(inner, SList):
            r = self.slist_read(inner, j)
        else:
            r = self.getitem(inner, j)
        for wi, wj, v in (parent.cellwrites if cellwrites is None else cellwrites):
            c = self.truth_term(self.eq_term(wi, i))
            c2 = self.truth_term(self.eq_term(wj, j))
            if c is False or c2 is False:
                continue
            cc = True if (c is True and c2 is True) else z3.And(zbool(c), zbool(c2))
            r = self.merge(cc, v, r)
        return r

    def row_snapshot(self, parent, i):
        inner = parent.elem(i)
        n = self.inner_len(inner)
        cw = list(parent.cellwrites)
        return SList(n, lambda j: self.cell_read(parent, i, j, cw))

    def getitem(self, obj, idx):
        if isinstance(idx, slice):
            return self.getslice(obj, idx)
        if isinstance(obj, (list, tuple)):
            if isinstance(idx, int):
                try:
                    return obj[idx]
                except IndexError:
                    py_raise('IndexError', 'index out of range')
            if is_sym_int(idx):
                n = len(obj)
                k = self.norm_index(idx, n)
                from .interp import MergeFail
                try:
                    r = obj[n - 1]
                    for q in range(n - 2, -1, -1):
                        r = self.merge(k == q, obj[q], r)
                    return r
                except MergeFail:
                    for q in range(n - 1):
                        if self.branch(k == q):
                            return obj[q]
                    return obj[n - 1]
            py_raise('TypeError', 'list indices must be integers')
        if isinstance(obj, SList):
            k = self.norm_index(idx, obj.n)
            return self.slist_read(obj, k)
        if isinstance(obj, RowView):
            n = self.inner_len(obj.inner)
            k = self.norm_index(idx, n)
            r = self.cell_read(obj.parent, obj.i, k)
            if isinstance(r, SObj):
                r = SObj(r.term, ('cell', obj.parent, obj.i, k), obj.parent.version)
            return r
        if isinstance(obj, dict):
            return self.dict_lookup(obj, idx)
        if isinstance(obj, SArr):
            return self.sarr_getitem(obj, idx)
        if isinstance(obj, GenList):
            fv = self.fview(obj)
            k = self.norm_index(idx, fv['n'])
            return fv['read'](k)
        if isinstance(obj, Instance):
            m, _ = obj.cls.lookup('__getitem__')
            if m is not None:
                return self.call(BoundMethod(m, obj), [idx], {})
        if isinstance(obj, ClassModel) and obj.is_enum and isinstance(idx, str):
            if idx in obj.enum_members:
                return obj.enum_members[idx]
            py_raise('KeyError', idx)
        if isinstance(obj, ClassModel) and not obj.is_enum:
            return obj   # Generic[T] style subscription
        if isinstance(obj, str) and isinstance(idx, int):
            return obj[idx]
        r = self.ext_getitem(obj, idx)
        if r is not NOTIMPL:
            return r
        raise Unsupported(f'getitem on {type(obj).__name__}')

    def getslice(self, obj, s):
        if isinstance(obj, (list, tuple, str)):
            if all(x is None or isinstance(x, int) for x in (s.start, s.stop, s.step)):
                return obj[s]
            raise Unsupported('symbolic slice of concrete list')
        if isinstance(obj, RowView):
            obj = self.row_snapshot(obj.parent, obj.i)
        if isinstance(obj, SList):
            if s.start is None and s.stop is None and s.step == -1:
                fz = obj.frozen_copy()
                n = fz.n
                return SList(n, lambda k: self.slist_read(fz, concretize(zint(n) - 1 - zint(k)), raw=True), obj.is_tuple)
            if s.step is None and isinstance(obj.n, int):
                items = [self.slist_read(obj, i, raw=True) for i in range(obj.n)]
                if all(x is None or isinstance(x, int) for x in (s.start, s.stop)):
                    r = items[s]
                    return tuple(r) if obj.is_tuple else r
            if s.step is None and s.start is None and s.stop is None:
                fz = obj.frozen_copy()
                return SList(fz.n, lambda k: self.slist_read(fz, k, raw=True), obj.is_tuple)
            step = 1 if s.step is None else s.step
            if isinstance(step, int) and step in (1, -1) and all(
                    x is None or (is_intlike(x) and not isinstance(x, bool)) for x in (s.start, s.stop)):
                # Python's slice.indices(n) for step +1 / -1: bounds are shifted by n when negative and clamped
                fz = obj.frozen_copy()
                n = zint(fz.n)
                def clamp(v, lo, hi):
                    v = zint(v)
                    v = z3.If(v < 0, v + n, v)
                    return z3.If(v < lo, lo, z3.If(v > hi, hi, v))
                if step == 1:
                    lo = z3.IntVal(0) if s.start is None else clamp(s.start, z3.IntVal(0), n)
                    hi = n if s.stop is None else clamp(s.stop, z3.IntVal(0), n)
                    m = concretize(z3.simplify(z3.If(hi > lo, hi - lo, 0)))
                    lo_c = concretize(z3.simplify(lo))
                    return SList(m, lambda k: self.slist_read(fz, concretize(zint(lo_c) + zint(k)), raw=True), obj.is_tuple)
                lo = (n - 1) if s.start is None else clamp(s.start, z3.IntVal(-1), n - 1)
                hi = z3.IntVal(-1) if s.stop is None else clamp(s.stop, z3.IntVal(-1), n - 1)
                m = concretize(z3.simplify(z3.If(lo > hi, lo - hi, 0)))
                lo_c = concretize(z3.simplify(lo))
                return SList(m, lambda k: self.slist_read(fz, concretize(zint(lo_c) - zint(k)), raw=True), obj.is_tuple)
            raise Unsupported('slice of symbolic list')
        r = self.ext_getitem(obj, s)
        if r is not NOTIMPL:
            return r
        raise Unsupported(f'slice of {type(obj).__name__}')

    def setitem(self, obj, idx, value):
        if isinstance(obj, list):
            if isinstance(idx, int):
                self.check_write(obj)
                self.note_write(obj, ('item', idx))
                try:
                    obj[idx] = value
                except IndexError:
                    py_raise('IndexError', 'assignment index out of range')
                return
            if is_sym_int(idx):
                self.check_write(obj)
                n = len(obj)
                k = self.norm_index(idx, n)
                for q in range(n):
                    obj[q] = self.merge(k == q, value, obj[q])
                return
            raise Unsupported('list setitem index')
        if isinstance(obj, SList):
            if obj.is_tuple:
                py_raise('TypeError', 'tuple does not support item assignment')
            self.check_write(obj)
            k = self.norm_index(idx, obj.n)
            if self.is_2d(obj):
                raise Unsupported('row replacement in list of lists')
            self.note_write(obj, ('item', k))
            obj.writes.append((k, value))
            return
        if isinstance(obj, RowView):
            self.check_write(obj.parent)
            n = self.inner_len(obj.inner)
            k = self.norm_index(idx, n)
            self.note_write(obj.parent, ('cell', obj.i, k))
            obj.parent.cellwrites.append((obj.i, k, value))
            return
        if isinstance(obj, dict):
            self.check_write(obj)
            obj[self.hashable(idx)] = value
            return
        if isinstance(obj, SArr):
            return self.sarr_setitem(obj, idx, value)
        if isinstance(obj, Instance):
            m, _ = obj.cls.lookup('__setitem__')
            if m is not None:
                self.call(BoundMethod(m, obj), [idx, value], {})
                return
        if isinstance(obj, tuple):
            py_raise('TypeError', 'tuple does not support item assignment')
        raise Unsupported(f'setitem on {type(obj).__name__}')

    # ------------------------------------------------------------------- dicts
    def hashable(self, k):
        if isinstance(k, EnumVal):
            n = k.concrete_name()
            if n is None:
                raise Unsupported('symbolic dict key on store')
            return ('enum', k.cls.qualname, n)
        if isinstance(k, tuple):
            return tuple(self.hashable(x) for x in k)
        if isinstance(k, (str, int, float, bool, type(None))) and not is_z3(k):
            return k
        if isinstance(k, (ClassModel, FunctionModel)):
            return k
        raise Unsupported(f'dict key {type(k).__name__}')

    def unhash(self, k, like):
        return k

    def key_eq(self, hk, k):
        """term: does symbolic key k equal stored (hashable-encoded) key hk"""
        if isinstance(hk, tuple) and len(hk) == 3 and hk[0] == 'enum':
            if isinstance(k, EnumVal) and k.cls.qualname == hk[1]:
                return concretize(k.term == k.cls.enum_consts[hk[2]])
            return False
        if isinstance(hk, tuple):
            if not (isinstance(k, tuple) and len(k) == len(hk)):
                return False
            acc = True
            for a, b in zip(hk, k):
                e = self.key_eq(a, b)
                if e is False:
                    return False
                if e is not True:
                    acc = e if acc is True else z3.And(acc, e)
            return acc
        if isinstance(hk, (int, bool)) and is_z3(k):
            return concretize(zint(k) == hk)
        if isinstance(hk, ClassModel) and isinstance(k, SClass):
            return concretize(k.term == self.class_term(hk)) if hk.is_gridobject and hk.registry_index is not None else False
        try:
            return self.hashable(k) == hk
        except Unsupported:
            return False

    def dict_lookup(self, d, key, default=NOTIMPL):
        try:
            hk = self.hashable(key)
        except Unsupported:
            hk = None
        if hk is not None:
            try:
                if hk in d:
                    return d[hk]
            except TypeError:
                pass
            if default is not NOTIMPL:
                return default
            py_raise('KeyError', repr(key))
        # symbolic key: ite chain over entries
        conds = []
        for k0, v0 in d.items():
            c = self.key_eq(k0, key)
            if c is False:
                continue
            conds.append((c, v0))
        anyc = concretize(z3.Or(*[zbool(c) for c, _ in conds])) if conds else False
        if not self.branch(anyc):
            if default is not NOTIMPL:
                return default
            py_raise('KeyError', 'symbolic key')
        from .interp import MergeFail
        try:
            r = conds[-1][1]
            for c, v0 in reversed(conds[:-1]):
                r = self.merge(c, v0, r)
            return r
        except MergeFail:
            for c, v0 in conds[:-1]:
                if self.branch(c):
                    return v0
            return conds[-1][1]

    # --------------------------------------------------------------- membership
    def contains(self, cont, x):
        if isinstance(cont, (list, tuple)):
            acc = False
            for y in cont:
                e = self.truth_term(self.equals(x, y))
                if e is True:
                    return True
                if e is not False:
                    acc = e if acc is False else z3.Or(acc, e)
            return acc
        if isinstance(cont, CSet):
            return self.contains(cont.items, x)
        if isinstance(cont, dict):
            acc = False
            for k0 in cont:
                e = self.key_eq(k0, x)
                if e is True:
                    return True
                if e is not False:
                    acc = e if acc is False else z3.Or(acc, e)
            return acc
        if isinstance(cont, SRange):
            return concretize(z3.And(zint(cont.lo) <= zint(x), zint(x) < zint(cont.hi)))
        if isinstance(cont, range):
            if isinstance(x, int):
                return x in cont
            if cont.step == 1:
                return concretize(z3.And(cont.start <= zint(x), zint(x) < cont.stop))
        if isinstance(cont, (Gen, SSet, GenList)):
            g = cont if isinstance(cont, Gen) else cont.gen
            return self.gen_member(g, x)
        if isinstance(cont, SList):
            if isinstance(cont.n, int):
                return self.contains([self.slist_read(cont, i, raw=True) for i in range(cont.n)], x)
            t = self.fresh_int('k')
            e = self.truth_term(self.equals(self.slist_read(cont, t, raw=True), x))
            return z3.Exists([t], z3.And(t >= 0, t < zint(cont.n), zbool(e)))
        if isinstance(cont, Instance):
            m, _ = cont.cls.lookup('__contains__')
            if m is not None:
                return self.call(BoundMethod(m, cont), [x], {})
        if isinstance(cont, ClassModel) and cont.is_enum:
            return isinstance(x, EnumVal) and x.cls is cont
        if isinstance(cont, str) and isinstance(x, str):
            return x in cont
        r = self.ext_contains(cont, x)
        if r is not NOTIMPL:
            return r
        raise Unsupported(f'in on {type(cont).__name__}')

    def solve_part(self, p, ek, key):
        """membership of `key` in { ek(vars) | guard(vars) }: when every variable occurs as a key
        component `v` or `c + v`, the variables are solved for and no quantifier is needed"""
        vs = p.vars
        if not vs:
            return z3.And(zbool(p.guard()), *[a == b for a, b in zip(ek, key)])
        sol = {}
        rest = []
        for a, b in zip(ek, key):
            a = z3.simplify(a) if is_z3(a) else z3.IntVal(a)
            hit = None
            for v in vs:
                if v.get_id() in sol:
                    continue
                if a.eq(v):
                    hit = (v, b)
                elif z3.is_add(a) and a.num_args() == 2:
                    x0_, x1_ = a.arg(0), a.arg(1)
                    if x1_.eq(v) and not self.mentions(x0_, vs):
                        hit = (v, b - x0_)
                    elif x0_.eq(v) and not self.mentions(x1_, vs):
                        hit = (v, b - x1_)
                if hit:
                    break
            if hit:
                sol[hit[0].get_id()] = hit
            else:
                rest.append((a, b))
        if len(sol) == len(vs):
            pairs = list(sol.values())
            return z3.And(z3.substitute(zbool(p.guard()), *pairs),
                          *[z3.substitute(a, *pairs) == b for a, b in rest])
        body = z3.And(zbool(p.guard()), *[a == b for a, b in zip(ek, key)])
        return z3.Exists(vs, body)

    def mentions(self, t, vs):
        from .lib import _consts
        ids = {v.get_id() for v in vs}
        return any(c.get_id() in ids for c in _consts(t))

    def finite_domain_of(self, g):
        """the values the elements of a generator view can take, when they all are symbolic grid-object classes or
        members of one enum; None otherwise"""
        elems = [p.elem for p in g.parts]
        if elems and all(isinstance(e, SClass) for e in elems):
            om = self.objmodel
            return [SClass(om.cls_consts[c.name]) for c in om.classes]
        if elems and all(isinstance(e, EnumVal) for e in elems) and len({e.cls.qualname for e in elems}) == 1:
            cls = elems[0].cls
            return [cls.enum_members[n] for n in cls.enum_canon]
        return None

    def gen_member(self, g, x):
        alts = []
        for p in self.rename_parts(g):
            e = self.truth_term(self.equals(p.elem, x))
            if e is False:
                continue
            body = z3.And(zbool(p.guard()), zbool(e))
            vs = p.vars
            alts.append(z3.Exists(vs, body) if vs else body)
        if not alts:
            return False
        return concretize(z3.Or(*alts))

    # ---------------------------------------------------------------- iteration
    def iterate(self, v):
        from .interp import SymbolicIteration
        if isinstance(v, (list, tuple)):
            return list(v)
        if isinstance(v, dict):
            return [self.unhash(k, None) for k in v.keys()]
        if isinstance(v, range):
            return list(v)
        if isinstance(v, CSet):
            if len(v.items) > 1:
                self.note_effect('set_order', 'iteration over a set')
            return list(v.items)
        if isinstance(v, SRange):
            lo, hi = concretize(v.lo), concretize(v.hi)
            if isinstance(lo, int) and isinstance(hi, int):
                return list(range(lo, hi))
            raise SymbolicIteration(v)
        if isinstance(v, ClassModel) and v.is_enum:
            return [v.enum_members[k] for k in v.enum_canon]
        if isinstance(v, SList):
            if isinstance(v.n, int):
                return [self.slist_read(v, i) for i in range(v.n)]
            raise SymbolicIteration(v)
        if isinstance(v, RowView):
            n = self.inner_len(v.inner)
            if isinstance(n, int):
                return [self.getitem(v, i) for i in range(n)]
            raise SymbolicIteration(self.row_snapshot(v.parent, v.i))
        if isinstance(v, Gen):
            if all(not p.ranges for p in v.parts):
                if all(p.filt is True for p in v.parts):
                    return [p.elem for p in v.parts]
                fl = self.filtered_list([p.elem for p in v.parts], [p.filt for p in v.parts])
                return self.iterate(fl)
            raise SymbolicIteration(v)
        if isinstance(v, GenList):
            try:
                return self.iterate(v.gen)
            except SymbolicIteration:
                raise SymbolicIteration(v)
        if isinstance(v, SSet):
            self.note_effect('set_order', 'iteration over a set')
            return self.iterate(v.gen)
        if isinstance(v, str):
            return list(v)
        if isinstance(v, Instance):
            m, _ = v.cls.lookup('__iter__')
            if m is not None:
                return self.iterate(self.call(BoundMethod(m, v), [], {}))
        r = self.ext_iterate(v)
        if r is not NOTIMPL:
            return r
        raise Unsupported(f'iteration over {type(v).__name__}')

    def filtered_list(self, items, guards):
        """list of those items whose guard holds (order kept): symbolic length"""
        gs = [zbool(self.truth_term(g)) for g in guards]
        ones = [z3.If(g, 1, 0) for g in gs]
        n = concretize(z3.Sum(*ones)) if len(ones) > 1 else concretize(ones[0]) if ones else 0
        if isinstance(n, int):
            return [it for it, g in zip(items, gs) if z3.is_true(z3.simplify(g))]
        prefix = []
        acc = z3.IntVal(0)
        for o in ones:
            prefix.append(acc)
            acc = acc + o
        def elem(i):
            r = items[-1]
            for k in range(len(items) - 2, -1, -1):
                r = self.merge(z3.And(gs[k], prefix[k] == zint(i)), items[k], r)
            return r
        L = SList(n, elem)
        self.assume(z3.And(zint(n) >= 0, zint(n) <= len(items)))
        return L

    # ----------------------------------------------------------- comprehensions
    def rename_parts(self, g):
        out = []
        for p in g.parts:
            pairs = []
            newr = []
            for v, lo, hi in p.ranges:
                nv = self.fresh_int(str(v).split('!')[0])
                pairs.append((v, nv))
            for (v, lo, hi), (_, nv) in zip(p.ranges, pairs):
                newr.append((nv, self.subst_value(lo, pairs), self.subst_value(hi, pairs)))
            out.append(Part(newr, self.subst_value(p.filt, pairs), self.subst_value(p.elem, pairs)))
        return out

    def sym_domain(self, src):
        """alternatives [(ranges, filt, elem)] describing iteration over src"""
        if isinstance(src, SRange):
            v = self.fresh_int('v')
            return [([(v, src.lo, src.hi)], True, v)]
        if isinstance(src, (Gen, GenList, SSet)):
            g = src if isinstance(src, Gen) else src.gen
            return [(p.ranges, p.filt, p.elem) for p in self.rename_parts(g)]
        if isinstance(src, SList):
            t = self.fresh_int('t')
            fz = src.frozen_copy()
            return [([(t, 0, fz.n)], True, self.slist_read(fz, t, raw=True))]
        raise Unsupported(f'symbolic iteration domain {type(src).__name__}')

    def guarded(self, thunk, guard):
        from .interp import DEAD, MergeFail
        if guard is True:
            return thunk()
        try:
            return self.pure(thunk, guard)
        except MergeFail as e:
            raise Unsupported(f'comprehension body not mergeable: {e}')

    def comprehension(self, generators, elt_fn, env):
        from .interp import DEAD, SymbolicIteration
        parts = []

        def gz(ranges, filt):
            return Part(ranges, filt, None).guard()

        def rec(gi, env, ranges, filt):
            guard = gz(ranges, filt)
            if guard is False:
                return
            if gi == len(generators):
                elem = self.guarded(lambda: elt_fn(env), guard)
                if elem is DEAD:
                    return
                parts.append(Part(list(ranges), filt, elem))
                return
            g = generators[gi]
            if g.is_async:
                raise Unsupported('async comprehension')
            src = self.guarded(lambda: self.eval(g.iter, env), guard)
            if src is DEAD:
                return
            try:
                items = self.iterate(src)
                alts = [([], True, it) for it in items]
            except SymbolicIteration as si:
                alts = self.sym_domain(si.value)
            for r2, f2, el in alts:
                e2 = Env(parent=env, module=env.module)
                self.assign(g.target, el, e2)
                ranges2 = ranges + list(r2)
                filt2 = filt if f2 is True else (f2 if filt is True else z3.And(filt, f2))
                dead = False
                for c in g.ifs:
                    gg = gz(ranges2, filt2)
                    t = self.guarded(lambda: self.truth_term(self.eval(c, e2)), gg)
                    if t is DEAD or t is False:
                        dead = True
                        break
                    if t is not True:
                        filt2 = t if filt2 is True else z3.And(filt2, t)
                if not dead:
                    rec(gi + 1, e2, ranges2, filt2)

        rec(0, env, [], True)
        return Gen(parts)

    def gen_to_list(self, g):
        if all(not p.ranges for p in g.parts):
            if all(p.filt is True for p in g.parts):
                return [p.elem for p in g.parts]
            return self.filtered_list([p.elem for p in g.parts], [p.filt for p in g.parts])
        if len(g.parts) == 1 and len(g.parts[0].ranges) == 1 and g.parts[0].filt is True:
            p = g.parts[0]
            v, lo, hi = p.ranges[0]
            n = concretize(z3.If(zint(hi) > zint(lo), zint(hi) - zint(lo), 0))
            elem_t = p.elem
            return SList(n, lambda i: self.subst_value(elem_t, [(v, concretize(zint(lo) + zint(i)))]))
        return GenList(g)

    def gen_to_set(self, g):
        if all(not p.ranges for p in g.parts) and all(p.filt is True for p in g.parts):
            return self.make_set([p.elem for p in g.parts])
        return SSet(g)

    def make_set(self, items):
        out = []
        exact = True
        for it in items:
            dup = False
            for o in out:
                e = self.truth_term(self.equals(it, o))
                if e is True:
                    dup = True
                    break
                if e is not False:
                    exact = False  # possibly duplicated symbolic element: membership view only
            if not dup:
                out.append(it)
        r = CSet(out)
        r.exact = exact
        return r

    # ------------------------------------------------------------------ F-views
    def fview(self, gl):
        """Skolem list view of list({elem | vars: guard}) (single part)"""
        if gl.fv is not None:
            return gl.fv
        g = gl.gen
        if len(g.parts) != 1:
            # a chain of generators is the concatenation of their lists: one view per part, indices offset by the
            # lengths of the parts before
            if not g.parts:
                gl.fv = {'n': 0, 'read': lambda i: py_raise('IndexError', 'list index out of range')}
                return gl.fv
            subs = [self.fview(GenList(Gen([part]))) for part in g.parts]
            offs = [0]
            for sv in subs:
                offs.append(concretize(zint(offs[-1]) + zint(sv['n'])))
            def read_chain(i, subs=subs, offs=offs):
                r = subs[-1]['read'](concretize(zint(i) - zint(offs[len(subs) - 1])))
                for q in range(len(subs) - 2, -1, -1):
                    r = self.merge(zint(i) < zint(offs[q + 1]), subs[q]['read'](concretize(zint(i) - zint(offs[q]))), r)
                return r
            gl.fv = {'n': offs[-1], 'read': read_chain}
            return gl.fv
        p = g.parts[0]
        vs = p.vars
        n = self.fresh_int('n')
        fs = [z3.Function(self.fresh_name(f'F{k}'), z3.IntSort(), z3.IntSort()) for k in range(len(vs))]
        idx = z3.Function(self.fresh_name('idx'), *([z3.IntSort()] * len(vs)), z3.IntSort())
        t = z3.Int(self.fresh_name('t'))
        guard = zbool(p.guard())
        at = [(v, f(t)) for v, f in zip(vs, fs)]
        self.assume(n >= 0)
        self.assume(z3.ForAll([t], z3.Implies(z3.And(t >= 0, t < n),
                                             z3.And(z3.substitute(guard, *at), idx(*[f(t) for f in fs]) == t)),
                              patterns=[fs[0](t)]))
        self.assume(z3.ForAll(vs, z3.Implies(guard, z3.And(idx(*vs) >= 0, idx(*vs) < n,
                                                           *[f(idx(*vs)) == v for v, f in zip(vs, fs)])),
                              patterns=[idx(*vs)]))
        # order: lexicographic in vars
        t2 = z3.Int(self.fresh_name('t2'))
        def lex(a, b):
            r = z3.BoolVal(False)
            for x, y in reversed(list(zip(a, b))):
                r = z3.Or(x < y, z3.And(x == y, r))
            return r
        self.assume(z3.ForAll([t, t2], z3.Implies(z3.And(t >= 0, t < t2, t2 < n),
                                                 lex([f(t) for f in fs], [f(t2) for f in fs])),
                              patterns=[z3.MultiPattern(fs[0](t), fs[0](t2))]))
        elem_t = p.elem
        def read(i):
            return self.subst_value(elem_t, [(v, f(zint(i))) for v, f in zip(vs, fs)])
        gl.fv = {'n': n, 'read': read, 'fs': fs, 'idx': idx, 'vars': vs, 'guard': guard}
        return gl.fv

    def seq_len(self, v):
        if isinstance(v, (list, tuple, dict, str)):
            return len(v)
        if isinstance(v, CSet):
            if not getattr(v, 'exact', True):
                # number of distinct values among possibly equal symbolic elements
                items = v.items
                total = 0
                for i, x in enumerate(items):
                    dup = False
                    for y in items[:i]:
                        e = self.truth_term(self.equals(x, y))
                        if e is True:
                            dup = True
                            break
                        if e is not False:
                            dup = e if dup is False else z3.Or(zbool(dup), zbool(e))
                    if dup is True:
                        continue
                    total = total + (1 if dup is False else z3.If(zbool(dup), 0, 1))
                return concretize(total) if is_z3(total) else total
            return len(v.items)
        if isinstance(v, SList):
            return v.n
        if isinstance(v, RowView):
            return self.inner_len(v.inner)
        if isinstance(v, SRange):
            return concretize(z3.If(zint(v.hi) > zint(v.lo), zint(v.hi) - zint(v.lo), 0))
        if isinstance(v, range):
            return len(v)
        if isinstance(v, GenList):
            return self.fview(v)['n']
        if isinstance(v, SSet):
            # a set view whose elements range over a finite domain (grid-object classes, members of an enum): its
            # size is the number of domain values that occur
            dom = self.finite_domain_of(v.gen)
            if dom is not None:
                total = 0
                for d in dom:
                    m = self.truth_term(self.gen_member(v.gen, d))
                    if m is True:
                        total = total + 1
                    elif m is not False:
                        total = total + z3.If(zbool(m), 1, 0)
                return concretize(total) if is_z3(total) else total
        if isinstance(v, ClassModel) and v.is_enum:
            return len(v.enum_canon)
        if isinstance(v, Instance):
            m, _ = v.cls.lookup('__len__')
            if m is not None:
                return self.call(BoundMethod(m, v), [], {})
        r = self.ext_len(v)
        if r is not NOTIMPL:
            return r
        raise Unsupported(f'len of {type(v).__name__}')

    # -------------------------------------------------------------------- arrays
    def sarr_read(self, A, i, j, writes=None):
        r = A.elem(i, j)
        for wi, wj, v in (A.writes if writes is None else writes):
            c = z3.And(zint(wi) == zint(i), zint(wj) == zint(j))
            r = self.merge(c, v, r)
        return r

    def sarr_index(self, A, idx):
        if isinstance(idx, Instance):
            raise Unsupported('array index by object')
        if not (isinstance(idx, tuple) and len(idx) == 2):
            raise Unsupported('array index form')
        i = self.norm_index(idx[0], A.h)
        j = self.norm_index(idx[1], A.w)
        return i, j

    def sarr_getitem(self, A, idx):
        i, j = self.sarr_index(A, idx)
        return self.sarr_read(A, i, j)

    def sarr_setitem(self, A, idx, value):
        self.check_write(A)
        i, j = self.sarr_index(A, idx)
        self.note_write(A, ('cell', i, j))
        if A.kind == 'bool':
            value = self.truth_term(value)
        A.writes.append((i, j, value))

    def sarr_map2(self, A, B, fn, kind):
        wa, wb = list(A.writes), (list(B.writes) if isinstance(B, SArr) else None)
        def elem(i, j):
            a = self.sarr_read(A, i, j, wa)
            b = self.sarr_read(B, i, j, wb) if isinstance(B, SArr) else B
            return fn(a, b)
        return SArr(A.h, A.w, elem, kind)

