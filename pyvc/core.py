"""pyvc core: exceptions, symbolic value classes, path context / solver plumbing.

The engine runs under python3-vt (z3-solver 5.1).  It never imports /repo code; it
parses it with `ast` and interprets it symbolically (see interp.py).
"""
from __future__ import annotations

import time
import z3

# ----------------------------------------------------------------------------
# control-flow exceptions of the engine
# ----------------------------------------------------------------------------


class Unsupported(Exception):
    """The engine met a construct outside its subset (never a verdict)."""


class PathEnd(Exception):
    """Current path is infeasible / was cut by an assumption."""


class PureFork(Exception):
    """internal: raised when a branch is undecided (handled by frames)."""


class PyRaise(Exception):
    """A Python-level exception raised by the interpreted program."""

    def __init__(self, exc: 'ExcVal'):
        super().__init__(str(exc))
        self.exc = exc


class ReturnSignal(Exception):
    def __init__(self, value):
        self.value = value


class BreakSignal(Exception):
    pass


class ContinueSignal(Exception):
    pass


# ----------------------------------------------------------------------------
# builtin exception classes (modelled subset)
# ----------------------------------------------------------------------------


class ExcClass:
    def __init__(self, name, base=None):
        self.name = name
        self.base = base

    def issub(self, other: 'ExcClass') -> bool:
        c = self
        while c is not None:
            if c is other:
                return True
            c = c.base
        return False

    def __repr__(self):
        return f'<exc {self.name}>'


EXC = {}


def _mk_exc(name, base=None):
    EXC[name] = ExcClass(name, EXC.get(base) if base else None)


_mk_exc('BaseException')
_mk_exc('Exception', 'BaseException')
_mk_exc('LookupError', 'Exception')
_mk_exc('IndexError', 'LookupError')
_mk_exc('KeyError', 'LookupError')
_mk_exc('ValueError', 'Exception')
_mk_exc('TypeError', 'Exception')
_mk_exc('AttributeError', 'Exception')
_mk_exc('RuntimeError', 'Exception')
_mk_exc('NotImplementedError', 'RuntimeError')
_mk_exc('StopIteration', 'Exception')
_mk_exc('AssertionError', 'Exception')
_mk_exc('ZeroDivisionError', 'Exception')
_mk_exc('NameError', 'Exception')
_mk_exc('UnboundLocalError', 'NameError')


class ExcVal:
    def __init__(self, cls: ExcClass, args=(), cause=None):
        self.cls = cls
        self.args = args
        self.cause = cause

    def __repr__(self):
        return f'{self.cls.name}{self.args!r}'


def py_raise(name, *args):
    raise PyRaise(ExcVal(EXC[name], args))


# ----------------------------------------------------------------------------
# symbolic values
# ----------------------------------------------------------------------------


class NotImplementedVal:
    def __repr__(self):
        return 'NotImplemented'


NOTIMPL = NotImplementedVal()


class Opaque:
    """A library value the engine does not model; any use is Unsupported."""

    def __init__(self, name):
        self.name = name

    def __repr__(self):
        return f'<opaque {self.name}>'


class EnumVal:
    """A member (concrete or symbolic) of an interpreted enum class."""

    __slots__ = ('cls', 'term')

    def __init__(self, cls, term):
        self.cls = cls
        self.term = term

    def concrete_name(self):
        return self.cls.enum_term_name.get(self.term.get_id())

    def __repr__(self):
        n = self.concrete_name()
        return f'{self.cls.name}.{n}' if n else f'{self.cls.name}<{self.term}>'


class SObj:
    """A GridObject value: a term of the z3 datatype Obj.

    loc: optional place the value was read from (container, key...) used for
    write-through of attribute stores (ownership assumption T5)."""

    __slots__ = ('term', 'loc', 'stamp')

    def __init__(self, term, loc=None, stamp=None):
        self.term = term
        self.loc = loc
        self.stamp = stamp

    def __repr__(self):
        return f'SObj({self.term})'


class SClass:
    """A symbolic GridObject class (term of enum sort Cls)."""

    __slots__ = ('term',)

    def __init__(self, term):
        self.term = term

    def __repr__(self):
        return f'SClass({self.term})'


_birth = [0]


def next_birth():
    _birth[0] += 1
    return _birth[0]


class Instance:
    """Instance of an interpreted (non-GridObject, non-enum) class."""

    def __init__(self, cls, fields=None):
        self.cls = cls
        self.fields = fields if fields is not None else {}
        self.birth = next_birth()
        self.frozen = False

    def __repr__(self):
        return f'<{self.cls.name} {self.fields}>'


class SList:
    """List with (possibly symbolic) length and element function.

    elem(i) gives the base element for a *normalised* index term i.  `writes`
    is an overlay of single-index stores; `cellwrites` an overlay of stores
    through row views (i, j, v) for list-of-lists.  Immutable tuples use the
    same class with is_tuple=True."""

    def __init__(self, n, elem, is_tuple=False):
        self.n = n
        self.elem = elem
        self.writes = []      # [(i, v)]
        self.cellwrites = []  # [(i, j, v)]
        self.is_tuple = is_tuple
        self.birth = next_birth()
        self.version = 0

    def frozen_copy(self):
        c = SList(self.n, self.elem, self.is_tuple)
        c.track = getattr(self, 'track', False)
        c.root = getattr(self, 'root', None)
        c.writes = list(self.writes)
        c.cellwrites = list(self.cellwrites)
        return c


class RowView:
    """Row i of a list-of-lists SList (reads/writes go through the parent)."""

    def __init__(self, parent: SList, i, inner):
        self.parent = parent
        self.i = i
        self.inner = inner  # the base inner list (SList or python list)


class Gen:
    """Set-builder view of a generator / comprehension:
    { elem | vars : guard }, iteration order lexicographic in vars.
    `parts`: a chain (list) of (vars, guard, elem) triples."""

    def __init__(self, parts):
        self.parts = parts  # list of (vars tuple, guard BoolRef, elem value)
        self.consumed = False


class SSet:
    """Set given by a generator view (membership only)."""

    def __init__(self, gen: Gen):
        self.gen = gen


class SArr:
    """numpy-like 2-D array with symbolic shape, element closure over (i, j).
    kind: 'bool' | 'int' | 'real'."""

    def __init__(self, h, w, elem, kind):
        self.h = h
        self.w = w
        self.elem = elem
        self.kind = kind
        self.writes = []  # [(i, j, v)]
        self.birth = next_birth()


class SymCallable:
    """An uninterpreted callable parameter with a protocol handler."""

    def __init__(self, name, handler):
        self.name = name
        self.handler = handler

    def __repr__(self):
        return f'<symcallable {self.name}>'


class Rng:
    """Oracle generator object: every draw is a fresh, constrained symbol."""

    def __init__(self, name):
        self.name = name
        self.draws = []  # list of dict(kind=..., terms=[...])
        self.birth = next_birth()

    def __repr__(self):
        return f'<rng {self.name}>'


# ----------------------------------------------------------------------------
# helpers on z3 terms
# ----------------------------------------------------------------------------


def is_z3(v):
    return isinstance(v, z3.ExprRef)


def is_sym_bool(v):
    return isinstance(v, z3.BoolRef)


def is_sym_int(v):
    return isinstance(v, z3.ArithRef) and v.is_int()


def is_sym_real(v):
    return isinstance(v, z3.ArithRef) and v.is_real()


def is_intlike(v):
    return (isinstance(v, int) and not isinstance(v, bool)) or is_sym_int(v)


def is_boollike(v):
    return isinstance(v, bool) or is_sym_bool(v)


def is_numlike(v):
    return isinstance(v, (int, float)) or isinstance(v, z3.ArithRef)


def zint(v):
    if isinstance(v, bool):
        return z3.IntVal(1 if v else 0)
    if isinstance(v, int):
        return z3.IntVal(v)
    if is_sym_bool(v):
        return z3.If(v, z3.IntVal(1), z3.IntVal(0))
    if is_sym_int(v):
        return v
    raise Unsupported(f'not an int: {v!r}')


def zreal(v):
    if isinstance(v, bool):
        return z3.RealVal(1 if v else 0)
    if isinstance(v, int):
        return z3.RealVal(v)
    if isinstance(v, float):
        if v != v or v in (float('inf'), float('-inf')):
            raise Unsupported('non-finite float constant')
        return z3.RealVal(repr(v))
    if is_sym_int(v):
        return z3.ToReal(v)
    if is_sym_real(v):
        return v
    if is_sym_bool(v):
        return z3.If(v, z3.RealVal(1), z3.RealVal(0))
    raise Unsupported(f'not a number: {v!r}')


def zbool(v):
    if isinstance(v, bool):
        return z3.BoolVal(v)
    if is_sym_bool(v):
        return v
    raise Unsupported(f'not a bool: {v!r}')


def simp(t):
    return z3.simplify(t)


def concretize(v):
    """turn literal z3 values into python values where possible"""
    if is_z3(v):
        s = z3.simplify(v)
        if z3.is_true(s):
            return True
        if z3.is_false(s):
            return False
        if z3.is_int_value(s):
            return s.as_long()
        return s
    return v


# ----------------------------------------------------------------------------
# solver statistics
# ----------------------------------------------------------------------------


class Stats:
    def __init__(self):
        self.checks = 0
        self.solver_s = 0.0
        self.unknown = 0

    def timed(self, f):
        t = time.time()
        try:
            return f()
        finally:
            self.solver_s += time.time() - t
            self.checks += 1


STATS = Stats()
