"""Symbolic interpreter for the Python subset used by /repo (statements and
expressions).  Objects/attributes are in objects.py, containers in seqs.py,
library models in lib.py."""
from __future__ import annotations

import ast
import os
import z3

from .core import (EXC, NOTIMPL, BreakSignal, ContinueSignal, EnumVal, ExcClass,
                   ExcVal, Gen, Instance, Opaque, PathEnd, PyRaise, ReturnSignal,
                   SClass, SList, SObj, Unsupported, concretize, is_boollike,
                   is_intlike, is_numlike, is_sym_bool, is_sym_int, is_sym_real,
                   is_z3, py_raise, zbool, zint, zreal)
from .ctx import CtxMixin
from .model import (MISSING, BoundMethod, Builtin, ClassMethod, ClassModel, Env,
                    FunctionModel, ModuleModel, Partial, PropertyModel,
                    StaticMethod)


class MergeFail(Exception):
    pass


class Dead:
    def __repr__(self):
        return 'DEAD'


DEAD = Dead()


class SymbolicIteration(Exception):
    def __init__(self, value):
        self.value = value


class InterpBase(CtxMixin):
    def __init__(self, roots):
        """roots: dict prefix -> directory, e.g. {'gym_gridverse': '/repo/gym_gridverse'}"""
        self.roots = roots
        self.modules = {}
        self.init_ctx()
        self.builtins = {}
        self.stub_modules = {}
        self.loop_specs = {}
        self.call_depth = 0
        self.func_stack = []
        self.fn_stack = []
        self.prove_hook = None
        self.read_log = None
        self.list_births = {}
        self.cached_lists = {}
        self.in_loop_step = 0
        self.sticky_effects = []
        self.summary_floor = None
        self.global_orig = {}
        self.read_base = 0
        self.reads_from = 0
        self.loop_birth = 0
        self.effects = None
        self.exc_stack = []
        self.skip_methods = {'check_signature', '__repr__'}
        self.dropped = set()
        self.contract_hooks = {}
        self.install_lib()

    # ------------------------------------------------------------------ modules
    def find_module_file(self, name):
        parts = name.split('.')
        for prefix, d in self.roots.items():
            pp = prefix.split('.')
            if parts[:len(pp)] == pp:
                rest = parts[len(pp):]
                base = os.path.join(d, *rest)
                if os.path.isfile(base + '.py'):
                    return base + '.py'
                if os.path.isdir(base) and os.path.isfile(os.path.join(base, '__init__.py')):
                    return os.path.join(base, '__init__.py')
        return None

    def load_module(self, name):
        if name in self.modules:
            return self.modules[name]
        if name in self.stub_modules:
            return self.stub_modules[name]
        path = self.find_module_file(name)
        if name.startswith('gym_gridverse.envs.yaml') or name in ('gym_gridverse.rendering', 'gym_gridverse.recording'):
            # YAML factory / schema validation / rendering: not interpreted (C17 is not applicable);
            # imported names become opaque values, any use of them is Unsupported
            path = None
            self.dropped.add(name)
        if path is None:
            m = ModuleModel(name)
            m.opaque = True
            self.stub_modules[name] = m
            return m
        m = ModuleModel(name, path)
        self.modules[name] = m
        m.ns['__name__'] = name
        m.ns['__debug__'] = True
        with open(path) as f:
            src = f.read()
        tree = ast.parse(src, path)
        m.tree = tree
        env = Env(module=m)
        env.vars = m.ns
        self.func_stack.append(f'<module {name}>')
        try:
            self.exec_block(tree.body, env)
        finally:
            self.func_stack.pop()
        return m

    def module_getattr(self, m, name):
        if name in m.ns:
            return m.ns[name]
        if getattr(m, 'opaque', False):
            return Opaque(f'{m.name}.{name}')
        # submodule?
        sub = f'{m.name}.{name}'
        if self.find_module_file(sub) or sub in self.stub_modules:
            return self.load_module(sub)
        py_raise('AttributeError', f'module {m.name} has no attribute {name}')

    # --------------------------------------------------------------- statements
    def exec_block(self, stmts, env):
        for s in stmts:
            self.exec_stmt(s, env)

    def exec_stmt(self, node, env):
        m = getattr(self, 'stmt_' + type(node).__name__, None)
        if m is None:
            raise Unsupported(f'statement {type(node).__name__} at line {node.lineno}')
        return m(node, env)

    def stmt_Expr(self, node, env):
        if isinstance(node.value, ast.Constant):
            return  # docstring / bare constant
        self.eval(node.value, env)

    def stmt_Pass(self, node, env):
        pass

    def stmt_Return(self, node, env):
        raise ReturnSignal(self.eval(node.value, env) if node.value else None)

    def stmt_Break(self, node, env):
        raise BreakSignal()

    def stmt_Continue(self, node, env):
        raise ContinueSignal()

    def stmt_Global(self, node, env):
        env.globals_decl.update(node.names)

    def stmt_Nonlocal(self, node, env):
        raise Unsupported('nonlocal')

    def stmt_Import(self, node, env):
        for a in node.names:
            m = self.load_module(a.name)
            if a.asname:
                self.bind(env, a.asname, m)
            else:
                top = a.name.split('.')[0]
                self.bind(env, top, self.load_module(top))

    def stmt_ImportFrom(self, node, env):
        modname = node.module or ''
        if node.level:
            cur = env.module.name.split('.')
            is_pkg = env.module.path and env.module.path.endswith('__init__.py')
            base = cur if is_pkg else cur[:-1]
            base = base[:len(base) - (node.level - 1)]
            modname = '.'.join(base + ([modname] if modname else []))
        m = self.load_module(modname)
        for a in node.names:
            if a.name == '*':
                for k, v in m.ns.items():
                    if not k.startswith('_'):
                        self.bind(env, k, v)
                continue
            if modname == '__future__':
                continue
            self.bind(env, a.asname or a.name, self.module_getattr(m, a.name))

    def bind(self, env, name, value):
        if name in env.globals_decl:
            self.note_effect('global_write', f'{env.module.name}.{name}')
            key = (env.module.name, name)
            if key not in self.global_orig:
                self.global_orig[key] = (env.module, env.module.ns.get(name))
            env.module.ns[name] = value
        else:
            env.vars[name] = value

    def stmt_Assign(self, node, env):
        v = self.eval(node.value, env)
        for t in node.targets:
            self.assign(t, v, env)

    def stmt_AnnAssign(self, node, env):
        if node.value is not None:
            self.assign(node.target, self.eval(node.value, env), env)
        elif isinstance(node.target, ast.Name) and getattr(env, 'class_body', False):
            env.vars.setdefault('__annotations__', {})[node.target.id] = node.annotation
        if node.value is not None and isinstance(node.target, ast.Name) and getattr(env, 'class_body', False):
            env.vars.setdefault('__annotations__', {})[node.target.id] = node.annotation

    def stmt_AugAssign(self, node, env):
        t = node.target
        if isinstance(t, ast.Name):
            cur = self.eval(t, env)
            self.assign(t, self.binop(node.op, cur, self.eval(node.value, env), inplace=True), env)
        elif isinstance(t, ast.Attribute):
            obj = self.eval(t.value, env)
            cur = self.getattr_(obj, t.attr)
            val = self.binop(node.op, cur, self.eval(node.value, env), inplace=True)
            self.setattr_(obj, t.attr, val)
        elif isinstance(t, ast.Subscript):
            obj = self.eval(t.value, env)
            idx = self.eval_index(t.slice, env)
            cur = self.getitem(obj, idx)
            val = self.binop(node.op, cur, self.eval(node.value, env), inplace=True)
            self.setitem(obj, idx, val)
        else:
            raise Unsupported('augassign target')

    def assign(self, target, value, env):
        if isinstance(target, ast.Name):
            self.bind(env, target.id, value)
        elif isinstance(target, ast.Attribute):
            self.setattr_(self.eval(target.value, env), target.attr, value)
        elif isinstance(target, ast.Subscript):
            self.setitem(self.eval(target.value, env), self.eval_index(target.slice, env), value)
        elif isinstance(target, (ast.Tuple, ast.List)):
            stars = [k for k, t in enumerate(target.elts) if isinstance(t, ast.Starred)]
            if stars:
                # a, b, *rest = value (one starred target): rest is a fresh list of the middle items
                if len(stars) > 1:
                    raise Unsupported('several starred assignment targets')
                k, n = stars[0], len(target.elts)
                items = self.iterate(value)
                if len(items) < n - 1:
                    py_raise('ValueError', 'unpack')
                tail = n - 1 - k
                mid = items[k:len(items) - tail]
                for t, v in zip(target.elts[:k], items[:k]):
                    self.assign(t, v, env)
                self.assign(target.elts[k].value, self.new_list(list(mid)), env)
                for t, v in zip(target.elts[k + 1:], items[len(items) - tail:]):
                    self.assign(t, v, env)
                return
            items = self.unpack(value, len(target.elts))
            for t, v in zip(target.elts, items):
                self.assign(t, v, env)
        else:
            raise Unsupported(f'assign target {type(target).__name__}')

    def unpack(self, value, n):
        items = self.iterate(value)
        if len(items) != n:
            py_raise('ValueError', 'unpack')
        return items

    def stmt_If(self, node, env):
        if self.truth(self.eval(node.test, env)):
            self.exec_block(node.body, env)
        else:
            self.exec_block(node.orelse, env)

    def stmt_Assert(self, node, env):
        if not self.truth(self.eval(node.test, env)):
            py_raise('AssertionError')

    def stmt_Raise(self, node, env):
        if node.exc is None:
            if self.exc_stack:
                raise PyRaise(self.exc_stack[-1])
            py_raise('RuntimeError', 'no active exception')
        e = self.eval(node.exc, env)
        if isinstance(e, ExcClass):
            e = ExcVal(e, ())
        if not isinstance(e, ExcVal):
            raise Unsupported(f'raise of {e!r}')
        if node.cause is not None:
            e.cause = self.eval(node.cause, env)
        raise PyRaise(e)

    def stmt_Try(self, node, env):
        try:
            try:
                self.exec_block(node.body, env)
            except PyRaise as pr:
                handled = False
                for h in node.handlers:
                    if self.exc_matches(pr.exc, h.type, env):
                        handled = True
                        if h.name:
                            self.bind(env, h.name, pr.exc)
                        self.exc_stack.append(pr.exc)
                        try:
                            self.exec_block(h.body, env)
                        finally:
                            self.exc_stack.pop()
                        break
                if not handled:
                    raise
            else:
                self.exec_block(node.orelse, env)
        finally:
            if node.finalbody:
                self.exec_block(node.finalbody, env)

    def exc_matches(self, exc, type_node, env):
        if type_node is None:
            return True
        t = self.eval(type_node, env)
        ts = t if isinstance(t, tuple) else (t,)
        for c in ts:
            if isinstance(c, ExcClass) and exc.cls.issub(c):
                return True
        return False

    def stmt_FunctionDef(self, node, env):
        f = self.make_function(node, env)
        val = f
        for d in reversed(node.decorator_list):
            dec = self.eval(d, env)
            val = self.call(dec, [val], {})
        self.bind(env, node.name, val)

    def make_function(self, node, env):
        cls_body = getattr(env, 'class_body', False)
        closure = env if not cls_body else env.parent
        qual = node.name if not hasattr(node, 'name') else node.name
        if cls_body:
            qual = f'{env.class_name}.{node.name}'
        elif self.func_stack and not self.func_stack[-1].startswith('<module'):
            qual = f'{self.func_stack[-1]}.<locals>.{node.name}'
        f = FunctionModel(node, env.module, closure, qualname=qual)
        a = node.args
        f.defaults = [self.eval(d, env) for d in a.defaults]
        f.kw_defaults = [None if d is None else self.eval(d, env) for d in a.kw_defaults]
        f.kw_has_default = [d is not None for d in a.kw_defaults]
        return f

    def stmt_ClassDef(self, node, env):
        bases = [self.eval(b, env) for b in node.bases]
        kwargs = {k.arg: self.eval(k.value, env) for k in node.keywords}
        cenv = Env(parent=env, module=env.module)
        cenv.class_body = True
        outer = getattr(env, 'class_name', None) if getattr(env, 'class_body', False) else None
        qual = f'{outer}.{node.name}' if outer else node.name
        cenv.class_name = qual
        self.exec_block(node.body, cenv)
        cls = self.make_class(node.name, bases, cenv.vars, env.module, qual, kwargs)
        val = cls
        for d in reversed(node.decorator_list):
            val = self.call(self.eval(d, env), [val], {})
        self.bind(env, node.name, val)

    def stmt_For(self, node, env):
        it = self.eval(node.iter, env)
        if self.fn_stack and self.summarize_append_loop(node, it, env):
            return
        try:
            items = self.iterate(it)
        except SymbolicIteration as si:
            return self.symbolic_for(node, si.value, env)
        broke = False
        for x in items:
            self.assign(node.target, x, env)
            try:
                self.exec_block(node.body, env)
            except BreakSignal:
                broke = True
                break
            except ContinueSignal:
                continue
        if not broke:
            self.exec_block(node.orelse, env)

    def index_while_as_for(self, node, env):
        """`i = 0 ... while i < len(seq): x = seq[i]; BODY; i += 1` (i used nowhere else, no break/continue, seq and
        the bound not assigned in BODY) is `for x in seq: BODY` followed by i = len(seq); returns the For node or None"""
        t = node.test
        if node.orelse or not (isinstance(t, ast.Compare) and len(t.ops) == 1 and isinstance(t.ops[0], ast.Lt)
                               and isinstance(t.left, ast.Name)):
            return None
        i = t.left.id
        body = node.body
        if len(body) < 2:
            return None
        first, last = body[0], body[-1]
        if not (isinstance(last, ast.AugAssign) and isinstance(last.op, ast.Add) and isinstance(last.target, ast.Name)
                and last.target.id == i and isinstance(last.value, ast.Constant) and last.value.value == 1):
            return None
        if not (isinstance(first, ast.Assign) and len(first.targets) == 1 and isinstance(first.targets[0], ast.Name)
                and isinstance(first.value, ast.Subscript) and isinstance(first.value.value, ast.Name)
                and isinstance(first.value.slice, ast.Name) and first.value.slice.id == i):
            return self.counting_while_as_for(node, env, i)
        x, seq = first.targets[0].id, first.value.value.id
        inner = body[1:-1]
        bound_names = {n_.id for n_ in ast.walk(t.comparators[0]) if isinstance(n_, ast.Name)}
        if any(isinstance(n_, ast.Call) for n_ in ast.walk(t.comparators[0])):
            # a bound recomputed every round (len(seq)) could change if the body grew the sequence through an alias:
            # only bodies that call no list-mutating method and store into no subscript are converted
            for st in inner:
                for n_ in ast.walk(st):
                    if isinstance(n_, ast.Call) and isinstance(n_.func, ast.Attribute) and n_.func.attr in (
                            'append', 'extend', 'insert', 'pop', 'remove', 'clear', 'sort', 'reverse'):
                        return None
                    if isinstance(n_, ast.Delete):
                        return None
        for st in inner:
            for n_ in ast.walk(st):
                if isinstance(n_, (ast.Break, ast.Continue, ast.Return)):
                    return None
                if isinstance(n_, ast.Name) and n_.id in (i, seq):
                    return None      # the index and the sequence are used by the loop header statements only
                if isinstance(n_, ast.Name) and isinstance(n_.ctx, ast.Store) and n_.id in ({seq, x} | bound_names):
                    return None
        try:
            start = env.lookup(i)
            sv = env.lookup(seq)
        except KeyError:
            return None
        if not (isinstance(start, int) and not isinstance(start, bool) and start == 0):
            return None
        # the bound must be the length of the sequence
        try:
            bound = self.pure(lambda: self.eval(t.comparators[0], env))
            ln = self.seq_len(sv)
        except Exception:
            return None
        same = self.truth_term(self.eq_term(bound, ln)) if (is_intlike(bound) and is_intlike(ln)) else False
        if same is not True and not (same is not False and self.check_sat(z3.Not(zbool(same))) == z3.unsat):
            return None
        fn = ast.For(target=ast.Name(id=x, ctx=ast.Store()), iter=ast.Name(id=seq, ctx=ast.Load()),
                     body=inner or [ast.Pass()], orelse=[], type_comment=None)
        ast.copy_location(fn, node)
        ast.fix_missing_locations(fn)
        fn.pyvc_from_while = node
        return fn, i, ln

    def counting_while_as_for(self, node, env, i):
        """`while i < B: BODY; i += 1` (i and the names of B not assigned in BODY, no break/continue/return) is
        `for i in range(i0, B): BODY` followed by i = max(i0, B)"""
        t = node.test
        inner = node.body[:-1]
        bound_names = {n_.id for n_ in ast.walk(t.comparators[0]) if isinstance(n_, ast.Name)}
        for st in inner:
            for n_ in ast.walk(st):
                if isinstance(n_, (ast.Break, ast.Continue, ast.Return)):
                    return None
                if isinstance(n_, ast.Name) and isinstance(n_.ctx, ast.Store) and n_.id in ({i} | bound_names):
                    return None
                if isinstance(n_, (ast.Call, ast.Attribute)) and bound_names & {m_.id for m_ in ast.walk(n_) if isinstance(m_, ast.Name)}:
                    pass
        try:
            start = env.lookup(i)
        except KeyError:
            return None
        if not is_intlike(start) or isinstance(start, bool):
            return None
        try:
            bound = self.pure(lambda: self.eval(t.comparators[0], env))
        except Exception:
            return None
        if not is_intlike(bound) or isinstance(bound, bool):
            return None
        tmp = '__pyvc_start_%d' % id(node)
        tmpb = '__pyvc_bound_%d' % id(node)
        env.vars[tmp] = start
        env.vars[tmpb] = bound
        fn = ast.For(target=ast.Name(id=i, ctx=ast.Store()),
                     iter=ast.Call(func=ast.Name(id='range', ctx=ast.Load()),
                                   args=[ast.Name(id=tmp, ctx=ast.Load()), ast.Name(id=tmpb, ctx=ast.Load())], keywords=[]),
                     body=inner or [ast.Pass()], orelse=[], type_comment=None)
        ast.copy_location(fn, node)
        ast.fix_missing_locations(fn)
        fn.pyvc_from_while = node
        after = concretize(z3.If(zint(bound) > zint(start), zint(bound), zint(start)))
        return fn, i, after

    def stmt_While(self, node, env):
        conv = self.index_while_as_for(node, env) if self.fn_stack else None
        if conv is not None:
            fn, i, ln = conv
            self.stmt_For(fn, env)
            env.vars[i] = ln
            return
        n = 0
        while self.truth(self.eval(node.test, env)):
            n += 1
            if n > 64:
                raise Unsupported('while loop without invariant exceeded unroll budget')
            try:
                self.exec_block(node.body, env)
            except BreakSignal:
                return
            except ContinueSignal:
                continue
        self.exec_block(node.orelse, env)

    def stmt_Delete(self, node, env):
        raise Unsupported('del')

    def stmt_With(self, node, env):
        raise Unsupported('with')

    # -------------------------------------------------------------- expressions
    def eval(self, node, env):
        m = getattr(self, 'expr_' + type(node).__name__, None)
        if m is None:
            raise Unsupported(f'expression {type(node).__name__}')
        return m(node, env)

    def expr_Constant(self, node, env):
        return node.value

    def expr_JoinedStr(self, node, env):
        return '<fstring>'

    def expr_Name(self, node, env):
        name = node.id
        try:
            return env.lookup(name)
        except KeyError:
            pass
        if env.module is not None and name in env.module.ns:
            v = env.module.ns[name]
            self.note_global_read(env.module, name, v)
            return v
        if name in self.builtins:
            return self.builtins[name]
        py_raise('NameError', name)

    def expr_Attribute(self, node, env):
        return self.getattr_(self.eval(node.value, env), node.attr)

    def eval_index(self, node, env):
        if isinstance(node, ast.Slice):
            return slice(None if node.lower is None else self.eval(node.lower, env),
                         None if node.upper is None else self.eval(node.upper, env),
                         None if node.step is None else self.eval(node.step, env))
        return self.eval(node, env)

    def expr_Subscript(self, node, env):
        return self.getitem(self.eval(node.value, env), self.eval_index(node.slice, env))

    def expr_Tuple(self, node, env):
        out = []
        for e in node.elts:
            if isinstance(e, ast.Starred):
                out.extend(self.iterate(self.eval(e.value, env)))
            else:
                out.append(self.eval(e, env))
        return tuple(out)

    def expr_List(self, node, env):
        return self.new_list(list(self.expr_Tuple(node, env)))

    def new_list(self, lst):
        """remember when a concrete list was created (python lists carry no attributes)"""
        from .core import next_birth
        if isinstance(lst, list):
            self.list_births[id(lst)] = (next_birth(), lst)
        return lst

    def expr_Set(self, node, env):
        return self.make_set([self.eval(e, env) for e in node.elts])

    def expr_Dict(self, node, env):
        d = {}
        for k, v in zip(node.keys, node.values):
            if k is None:
                raise Unsupported('dict unpacking')
            d[self.hashable(self.eval(k, env))] = self.eval(v, env)
        return d

    def expr_Lambda(self, node, env):
        f = FunctionModel(node, env.module, env, qualname='<lambda>')
        a = node.args
        f.defaults = [self.eval(d, env) for d in a.defaults]
        f.kw_defaults = [None if d is None else self.eval(d, env) for d in a.kw_defaults]
        f.kw_has_default = [d is not None for d in a.kw_defaults]
        return f

    def expr_IfExp(self, node, env):
        c = self.truth_term(self.eval(node.test, env))
        if isinstance(c, bool):
            return self.eval(node.body if c else node.orelse, env)
        try:
            a = self.pure(lambda: self.eval(node.body, env), c)
            b = self.pure(lambda: self.eval(node.orelse, env), z3.Not(c))
            return self.merge(c, a, b)
        except MergeFail:
            pass
        if self.branch(c):
            return self.eval(node.body, env)
        return self.eval(node.orelse, env)

    def expr_BoolOp(self, node, env):
        is_and = isinstance(node.op, ast.And)
        return self.boolop(is_and, node.values, env)

    def boolop(self, is_and, nodes, env):
        v = self.eval(nodes[0], env)
        if len(nodes) == 1:
            return v
        rest = nodes[1:]
        t = self.truth_term(v)
        if isinstance(t, bool):
            if t == is_and:
                return self.boolop(is_and, rest, env)
            return v
        # symbolic: try to merge into a boolean term
        guard = t if is_and else z3.Not(t)
        try:
            r = self.pure(lambda: self.boolop(is_and, rest, env), guard)
            if r is DEAD:
                return v
            if is_boollike(v) and is_boollike(r):
                return concretize(z3.And(t, zbool(r)) if is_and else z3.Or(t, zbool(r)))
            rt = None
        except MergeFail:
            pass
        if self.branch(t) == is_and:
            return self.boolop(is_and, rest, env)
        return v

    def expr_UnaryOp(self, node, env):
        v = self.eval(node.operand, env)
        op = node.op
        if isinstance(op, ast.Not):
            t = self.truth_term(v)
            return (not t) if isinstance(t, bool) else concretize(z3.Not(t))
        if isinstance(op, ast.USub):
            if isinstance(v, (int, float)):
                return -v
            if is_z3(v):
                return concretize(-v)
            return self.call_dunder(v, '__neg__', [])
        if isinstance(op, ast.UAdd):
            return v
        raise Unsupported('unary op')

    def expr_BinOp(self, node, env):
        return self.binop(node.op, self.eval(node.left, env), self.eval(node.right, env))

    def expr_Compare(self, node, env):
        left = self.eval(node.left, env)
        if len(node.ops) == 1:
            return self.compare(node.ops[0], left, self.eval(node.comparators[0], env))
        # chained comparison (evaluate all operands eagerly when atoms, else short-circuit)
        result = True
        for op, cn in zip(node.ops, node.comparators):
            right = self.eval(cn, env)
            r = self.compare(op, left, right)
            t = self.truth_term(r)
            if isinstance(t, bool):
                if not t:
                    return False
            else:
                result = t if result is True else z3.And(result, t)
            left = right
        return concretize(result) if not isinstance(result, bool) else result

    def expr_Call(self, node, env):
        if isinstance(node.func, ast.Name) and node.func.id == 'super' and not node.args:
            from .lib import SuperProxy
            return SuperProxy(env.lookup('__class__'), env.lookup('__firstarg__'))
        f = self.eval(node.func, env)
        args = []
        for a in node.args:
            if isinstance(a, ast.Starred):
                sv = self.eval(a.value, env)
                if isinstance(f, Builtin) and f.name == 'zip' and len(node.args) == 1:
                    from .core import RowView
                    if isinstance(sv, SList) and not isinstance(sv.n, int):
                        return self.zip_star(sv)
                args.extend(self.iterate(sv))
            else:
                args.append(self.eval(a, env))
        kwargs = {}
        for k in node.keywords:
            if k.arg is None:
                d = self.eval(k.value, env)
                if not isinstance(d, dict):
                    raise Unsupported('** of non-dict')
                kwargs.update(d)
            else:
                kwargs[k.arg] = self.eval(k.value, env)
        return self.call(f, args, kwargs, node=node)

    def expr_GeneratorExp(self, node, env):
        return self.comprehension(node.generators, lambda e: self.eval(node.elt, e), env)

    def expr_ListComp(self, node, env):
        g = self.comprehension(node.generators, lambda e: self.eval(node.elt, e), env)
        return self.gen_to_list(g)

    def expr_SetComp(self, node, env):
        g = self.comprehension(node.generators, lambda e: self.eval(node.elt, e), env)
        return self.gen_to_set(g)

    def expr_DictComp(self, node, env):
        g = self.comprehension(node.generators,
                               lambda e: (self.eval(node.key, e), self.eval(node.value, e)), env)
        items = self.iterate(g)
        return {self.hashable(k): v for k, v in items}

    def expr_Starred(self, node, env):
        raise Unsupported('starred')

    # -------------------------------------------------------------------- truth
    def truth_term(self, v):
        """python truthiness as bool or z3 Bool, no branching"""
        if isinstance(v, bool):
            return v
        if is_sym_bool(v):
            return concretize(v)
        if v is None:
            return False
        if isinstance(v, (int, float)):
            return v != 0
        if is_sym_int(v) or is_sym_real(v):
            return concretize(v != 0)
        if isinstance(v, (str, list, tuple, dict, set, frozenset)):
            return len(v) > 0
        if isinstance(v, SList):
            return concretize(zint(v.n) > 0) if is_z3(v.n) else v.n > 0
        if isinstance(v, (EnumVal, SObj, ClassModel, FunctionModel, BoundMethod, Builtin,
                          ExcVal, ExcClass, SClass, ModuleModel)):
            return True
        if isinstance(v, Instance):
            f, _ = v.cls.lookup('__bool__')
            if f is not None:
                return self.truth_term(self.call(BoundMethod(f, v), [], {}))
            f, _ = v.cls.lookup('__len__')
            if f is not None:
                return self.truth_term(self.compare(ast.Gt(), self.call(BoundMethod(f, v), [], {}), 0))
            return True
        t = self.truth_term_ext(v)
        if t is not None:
            return t
        raise Unsupported(f'truth of {type(v).__name__}')

    def truth(self, v):
        return self.branch(self.truth_term(v))

    # ------------------------------------------------------------------- merging
    def pure(self, thunk, assumption=None):
        """evaluate thunk on all its paths under `assumption` and merge the results"""
        def run():
            if assumption is not None:
                a = concretize(assumption)
                if a is False:
                    raise PathEnd()
                if a is not True:
                    self.pc_push(a)
            return thunk()
        self.pure_depth += 1
        from .core import _birth
        self.pure_birth.append(_birth[0])
        try:
            leaves = self.explore(run, merge=True)
        finally:
            self.pure_depth -= 1
            self.pure_birth.pop()
        if not leaves:
            return DEAD
        if any(k == 'raise' for _, _, k, _ in leaves):
            raise MergeFail('raise in pure evaluation')
        conds_all = []
        v = leaves[-1][3]
        for conds, facts, _, val in reversed(leaves[:-1]):
            v = self.merge(z3.And(*conds) if conds else z3.BoolVal(True), val, v)
        for conds, facts, _, _ in leaves:
            pre = list(conds)
            if assumption is not None and concretize(assumption) is not True:
                pre.append(assumption)
            for f in facts:
                self.assume(z3.Implies(z3.And(*pre), f) if pre else f)
        return v

    def check_write(self, obj):
        if self.pure_depth > 0:
            b = getattr(obj, 'birth', None)
            if b is None and isinstance(obj, list):
                rec = self.list_births.get(id(obj))
                b = rec[0] if rec is not None and rec[1] is obj else None
            floor = self.pure_birth[0]
            if self.summary_floor is not None:
                floor = min(floor, self.summary_floor)   # objects created by the loop being summarised are its own
            if b is None or b <= floor:
                raise MergeFail('heap write in pure evaluation')

    def merge(self, c, a, b):
        if a is DEAD:
            return b
        if b is DEAD:
            return a
        if a is b:
            return a
        c = concretize(c)
        if c is True:
            return a
        if c is False:
            return b
        if is_boollike(a) and is_boollike(b):
            return concretize(z3.If(c, zbool(a), zbool(b)))
        if is_intlike(a) and is_intlike(b):
            if isinstance(a, int) and isinstance(b, int) and a == b:
                return a
            return concretize(z3.If(c, zint(a), zint(b)))
        if is_numlike(a) and is_numlike(b) and not isinstance(a, bool) and not isinstance(b, bool):
            if isinstance(a, float) and isinstance(b, float) and a == b:
                return a
            return z3.If(c, zreal(a), zreal(b))
        if isinstance(a, EnumVal) and isinstance(b, EnumVal) and a.cls is b.cls:
            if a.term.eq(b.term):
                return a
            return EnumVal(a.cls, z3.simplify(z3.If(c, a.term, b.term)))
        if isinstance(a, SObj) and isinstance(b, SObj):
            if a.term.eq(b.term):
                return a
            return SObj(z3.If(c, a.term, b.term))
        if self.is_gridobject_class(a) and self.is_gridobject_class(b):
            ta, tb = self.class_term(a), self.class_term(b)
            if ta.eq(tb):
                return a
            return SClass(z3.If(c, ta, tb))
        if isinstance(a, (str, type(None))) and a == b:
            return a
        if isinstance(a, tuple) and isinstance(b, tuple) and len(a) == len(b):
            return tuple(self.merge(c, x, y) for x, y in zip(a, b))
        if isinstance(a, Instance) and isinstance(b, Instance) and a.cls is b.cls \
                and a.cls.is_dataclass and a.cls.dc_frozen:
            r = Instance(a.cls, {k: self.merge(c, a.fields[k], b.fields[k]) for k in a.fields})
            r.frozen = True
            return r
        if isinstance(a, ExcClass) and a is b:
            return a
        raise MergeFail(f'cannot merge {type(a).__name__} with {type(b).__name__}')

    # ---------------------------------------------------------------- operators
    _binops = {ast.Add: '__add__', ast.Sub: '__sub__', ast.Mult: '__mul__',
               ast.FloorDiv: '__floordiv__', ast.Mod: '__mod__', ast.Div: '__truediv__',
               ast.BitOr: '__or__', ast.BitAnd: '__and__', ast.Pow: '__pow__'}

    def binop(self, op, a, b, inplace=False):
        name = self._binops.get(type(op))
        if name is None:
            raise Unsupported(f'binop {type(op).__name__}')
        r = self.prim_binop(type(op), a, b)
        if r is not NOTIMPL:
            return r
        # dunder dispatch
        r = self.call_dunder(a, name, [b], missing_ok=True)
        if r is not NOTIMPL:
            return r
        rname = '__r' + name[2:]
        r = self.call_dunder(b, rname, [a], missing_ok=True)
        if r is not NOTIMPL:
            return r
        py_raise('TypeError', f'unsupported operand for {name}')

    def prim_binop(self, op, a, b):
        if isinstance(a, bool) and isinstance(b, bool) and op in (ast.BitOr, ast.BitAnd):
            return (a | b) if op is ast.BitOr else (a & b)
        if is_boollike(a) and is_boollike(b) and op in (ast.BitOr, ast.BitAnd):
            return concretize(z3.Or(zbool(a), zbool(b)) if op is ast.BitOr else z3.And(zbool(a), zbool(b)))
        num_a = isinstance(a, (int, float)) or isinstance(a, z3.ArithRef) or is_sym_bool(a)
        num_b = isinstance(b, (int, float)) or isinstance(b, z3.ArithRef) or is_sym_bool(b)
        if num_a and num_b:
            return self.arith(op, a, b)
        if isinstance(a, (list, tuple)) and type(a) is type(b) and op is ast.Add:
            return a + b
        if isinstance(a, list) and isinstance(b, int) and not is_z3(b) and op is ast.Mult:
            return a * b
        if isinstance(a, str) and isinstance(b, str) and op is ast.Add:
            return a + b
        r = self.ext_binop(op, a, b)
        return r

    def arith(self, op, a, b):
        conc = isinstance(a, (int, float)) and isinstance(b, (int, float))
        if conc:
            try:
                if op is ast.Add:
                    return a + b
                if op is ast.Sub:
                    return a - b
                if op is ast.Mult:
                    return a * b
                if op is ast.FloorDiv:
                    return a // b
                if op is ast.Mod:
                    return a % b
                if op is ast.Div:
                    return a / b
                if op is ast.Pow:
                    return a ** b
            except ZeroDivisionError:
                py_raise('ZeroDivisionError')
        isreal = isinstance(a, float) or isinstance(b, float) or is_sym_real(a) or is_sym_real(b) or op is ast.Div
        if isreal:
            x, y = zreal(a), zreal(b)
            if op is ast.Add:
                return x + y
            if op is ast.Sub:
                return x - y
            if op is ast.Mult:
                return x * y
            if op is ast.Div:
                if self.branch(y == 0):
                    py_raise('ZeroDivisionError')
                return x / y
            raise Unsupported('float op')
        x, y = zint(a), zint(b)
        if op is ast.Add:
            return concretize(x + y)
        if op is ast.Sub:
            return concretize(x - y)
        if op is ast.Mult:
            return concretize(x * y)
        if op in (ast.FloorDiv, ast.Mod):
            if self.branch(y == 0):
                py_raise('ZeroDivisionError')
            # python floor semantics; z3 div/mod are euclidean (floor for y>0)
            if isinstance(b, int) and b > 0:
                return concretize(x / y) if op is ast.FloorDiv else concretize(x % y)
            q = z3.If(y > 0, x / y, (-x) / (-y))
            if op is ast.FloorDiv:
                return concretize(q)
            return concretize(x - y * q)
        if op is ast.Pow and isinstance(b, int) and 0 <= b <= 4:
            r = z3.IntVal(1)
            for _ in range(b):
                r = r * x
            return concretize(r)
        raise Unsupported('int op')

    def compare(self, op, a, b):
        t = type(op)
        if t is ast.Is:
            return self.identical(a, b)
        if t is ast.IsNot:
            return self.negate(self.identical(a, b))
        if t is ast.Eq:
            return self.equals(a, b)
        if t is ast.NotEq:
            return self.negate(self.equals(a, b))
        if t is ast.In:
            return self.contains(b, a)
        if t is ast.NotIn:
            return self.negate(self.contains(b, a))
        num_a = isinstance(a, (int, float)) or isinstance(a, z3.ArithRef)
        num_b = isinstance(b, (int, float)) or isinstance(b, z3.ArithRef)
        if num_a and num_b:
            if isinstance(a, (int, float)) and isinstance(b, (int, float)):
                return {ast.Lt: a < b, ast.LtE: a <= b, ast.Gt: a > b, ast.GtE: a >= b}[t]
            real = isinstance(a, float) or isinstance(b, float) or is_sym_real(a) or is_sym_real(b)
            x, y = (zreal(a), zreal(b)) if real else (zint(a), zint(b))
            r = {ast.Lt: x < y, ast.LtE: x <= y, ast.Gt: x > y, ast.GtE: x >= y}[t]
            return concretize(r)
        if isinstance(a, (tuple, list)) and type(a) is type(b) and all(
                isinstance(x, (int, float)) for x in list(a) + list(b)):
            return {ast.Lt: a < b, ast.LtE: a <= b, ast.Gt: a > b, ast.GtE: a >= b}[t]
        r = self.ext_compare(t, a, b)
        if r is not NOTIMPL:
            return r
        raise Unsupported(f'compare {t.__name__} on {type(a).__name__},{type(b).__name__}')

    def negate(self, v):
        t = self.truth_term(v)
        return (not t) if isinstance(t, bool) else concretize(z3.Not(t))

    # ------------------------------------------------------------------- effects
    def note_effect(self, kind, what):
        if self.effects is not None:
            self.effects.append((kind, what))
            if self.in_loop_step:
                # the step path of a loop rule ends there; its effects belong to every path of the function
                self.sticky_effects.append((kind, what))

    def note_global_read(self, module, name, v):
        pass

    def restore_globals(self):
        """module-level variables written by interpreted code are reset at the start of every path"""
        for (mod, name), (m, v) in self.global_orig.items():
            m.ns[name] = v


from .objects import ObjectsMixin, ObjModel
from .seqs import SeqMixin
from .lib import LibMixin
from .loops import LoopMixin


class Interp(ObjectsMixin, SeqMixin, LoopMixin, LibMixin, InterpBase):
    def __init__(self, roots):
        super().__init__(roots)
        self.objmodel = None

    def load_repo(self, pkg='gym_gridverse'):
        go = self.load_module(f'{pkg}.grid_object')
        self.objmodel = ObjModel(self, go)
        return self
