"""Finite grounding of integer quantifiers (used only to *search* for small
counterexamples; every model found this way is replayed against the real code)."""
import itertools
import z3


def ground(e, lo, hi, cache=None, budget=None):
    if cache is None:
        cache = {}
    if budget is None:
        budget = [200000]
    k = e.get_id()
    if k in cache:
        return cache[k][1]
    budget[0] -= 1
    if budget[0] < 0:
        raise MemoryError('grounding budget exceeded')
    if z3.is_quantifier(e) and e.is_lambda():
        r = e      # an array term, not a formula (consumed by the hash_seq case below)
    elif z3.is_app(e) and e.decl().name() == 'hash_seq':
        # hash of a tuple of symbolic length (lib.hash_of): the function is uninterpreted, so any interpretation
        # gives genuine models; a positional polynomial over the first cells lets arrays given by lambdas be
        # evaluated (sizes are at most hi in this search)
        terms = [ground(e.arg(0), lo, hi, cache, budget) * 7919 + 13]
        for k in range(0, hi + 1):
            sel = z3.simplify(z3.Select(e.arg(1), z3.IntVal(k)))
            terms.append(ground(sel, lo, hi, cache, budget) * (31 ** (k + 1)))
        r = z3.Sum(terms)
    elif z3.is_quantifier(e):
        n = e.num_vars()
        if not all(e.var_sort(i) == z3.IntSort() for i in range(n)):
            r = e
        else:
            body = e.body()
            insts = []
            vals = [z3.IntVal(v) for v in range(lo, hi + 1)]
            for tup in itertools.product(vals, repeat=n):
                # de Bruijn: variable 0 is the innermost (last declared)
                inst = z3.substitute_vars(body, *reversed(tup))
                insts.append(ground(z3.simplify(inst), lo, hi, cache, budget))
            r = z3.And(*insts) if e.is_forall() else z3.Or(*insts)
    elif z3.is_app(e) and e.num_args() > 0:
        ch = [ground(c, lo, hi, cache, budget) for c in e.children()]
        r = e.decl()(*ch)
    else:
        r = e
    cache[k] = (e, r)      # keeps e alive: z3 recycles the ids of collected ASTs
    return r
