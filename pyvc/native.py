"""Native harness (runs under /venv/bin/python): replays counterexamples and
cross-checks contracts against the real code on random concrete inputs.

usage: native.py replay <replay.json>
       native.py crosscheck <contracts module> <n per contract> <seed> [name ...]
"""
import ast
import copy
import importlib
import json
import os
import random
import sys
import traceback

VERIF = os.path.dirname(os.path.dirname(os.path.abspath(__file__)))
REPO = os.environ.get('PYVC_REPO', '/repo')


def setup_path():
    try:
        import pkg_resources  # noqa: F401  (puts setuptools' vendored more_itertools on sys.path)
    except Exception:
        pass
    import warnings
    warnings.filterwarnings('ignore')
    sys.path.insert(0, REPO)
    sys.path.insert(0, VERIF)
    try:
        import yaml
        yaml.safe_load  # PyYAML is absent in this sandbox; /repo/yaml is a data directory
    except Exception:
        import types
        sys.modules['yaml'] = types.ModuleType('yaml')


HASHSEED_RUNS = {}
HASHSEED_BUDGET = int(os.environ.get('PYVC_HASHSEED_BUDGET', '4'))


class ScriptedRng:
    """numpy Generator look-alike that returns scripted outcomes"""

    def __init__(self, script=None, fallback_seed=0):
        self.script = list(script or [])
        self.pos = 0
        self.ncalls = 0
        self.deviated = False
        self.log = []
        self.values = []
        self.ranges = []
        self.fallback = random.Random(fallback_seed)
        # looks enough like numpy's Generator.bit_generator for code that copies generator state around
        self.bit_generator = type('ScriptedBitGenerator', (), {})()
        ScriptedRng.instances = getattr(ScriptedRng, 'instances', 0) + 1
        self.bit_generator.state = {'bit_generator': 'Scripted', 'state': {'state': fallback_seed, 'inc': 1},
                                    'has_uint32': ScriptedRng.instances % 2, 'uinteger': 1000 + ScriptedRng.instances}

    def _next(self, kind):
        self.ncalls += 1
        self.log.append(kind)
        if self.pos < len(self.script) and self.script[self.pos].get('kind') == kind:
            v = self.script[self.pos]['values']
            self.pos += 1
            return v
        self.deviated = True
        return None

    def choice(self, a, size=None, replace=True, **kw):
        data = None
        if not isinstance(a, int):
            import numpy as np
            if isinstance(a, np.integer):
                a = int(a)
            else:
                data = list(a)
                a = len(data)
        if size is None:
            v = self._next('choice')
            self.ranges.append(('choice', a))
            if a <= 0:
                raise ValueError("a must be greater than 0 unless no samples are taken")
            i = v[0] if v is not None and 0 <= v[0] < a else self.fallback.randrange(a)
            self.values.append(i)
            return i if data is None else data[i]
        v = self._next('choices')
        if size < 0:
            raise ValueError('negative dimensions are not allowed')
        if a <= 0 and size > 0:
            raise ValueError('a cannot be empty unless no samples are taken')
        if not replace and size > a:
            raise ValueError("Cannot take a larger sample than population when 'replace=False'")
        ok = v is not None and len(v) == size and all(0 <= i < a for i in v) and (replace or len(set(v)) == size)
        if not ok:
            if v is not None:
                self.deviated = True
            v = [self.fallback.randrange(a) for _ in range(size)] if replace else self.fallback.sample(range(a), size)
        import numpy as np
        self.values.append(list(v))
        if data is None:
            return np.array(v, dtype=int)
        out = np.empty(size, dtype=object)
        for k, i in enumerate(v):
            out[k] = data[i]
        return out

    def integers(self, low, high=None, size=None, endpoint=False, **kw):
        if high is None:
            low, high = 0, low
        hi = high + (1 if endpoint else 0)
        v = self._next('integers')
        self.ranges.append(('integers', low, hi))
        if low >= hi:
            raise ValueError('low >= high')
        if v is not None and low <= v[0] < hi:
            self.values.append(v[0])
            return v[0]
        if v is not None:
            self.deviated = True
        x = self.fallback.randrange(low, hi)
        self.values.append(x)
        return x

    def random(self, size=None, **kw):
        import numpy as np
        if size is None:
            v = self._next('random')
            return v[0] if v is not None else (0.0 if self.fallback.random() < 0.2 else self.fallback.random())
        v = self._next('random_array')
        if v is not None:
            arr = np.array(v, dtype=float)
            if arr.shape == tuple(size):
                return arr
            self.deviated = True
        # boundary values matter (random() may return exactly 0.0): mix them in
        def one():
            u = self.fallback.random()
            return 0.0 if u < 0.2 else self.fallback.random()
        return np.array([[one() for _ in range(size[1])] for _ in range(size[0])]).reshape(tuple(size))

    def shuffle(self, x):
        v = self._next('shuffle')
        n = len(x)
        if v is not None and sorted(v) == list(range(n)):
            perm = v
        else:
            if v is not None:
                self.deviated = True
            perm = list(range(n))
            self.fallback.shuffle(perm)
        y = [x[i] for i in perm]
        for i in range(n):
            x[i] = y[i]


class ScriptedVisFn:
    """visibility callable returning scripted boolean arrays (then random ones)"""

    def __init__(self, script=None, seed=0):
        self.script = list(script or [])
        self.calls = []
        self.r = random.Random(seed)

    def __call__(self, grid, position, *, rng=None):
        import numpy as np
        k = len(self.calls)
        if k < len(self.script):
            s = self.script[k]
            arr = np.array(s['values'], dtype=bool).reshape(tuple(s['shape']))
        else:
            h, w = grid.shape.height, grid.shape.width
            if self.r.random() < 0.1:
                h += 1
            arr = np.array([[self.r.random() < 0.6 for _ in range(w)] for _ in range(h)], dtype=bool).reshape((h, w))
        self.calls.append({'args': [copy.deepcopy(grid), position], 'kwargs': {'rng': rng}, 'result': arr})
        return arr


def decode(j):
    from gym_gridverse import grid_object as go
    from gym_gridverse.action import Action
    from gym_gridverse.agent import Agent
    from gym_gridverse.geometry import Area, Orientation, Position, Shape, Transform
    from gym_gridverse.grid import Grid
    from gym_gridverse.observation import Observation
    from gym_gridverse.state import State
    if isinstance(j, list):
        return [decode(x) for x in j]
    if not isinstance(j, dict):
        return j
    if 'enum' in j:
        from gym_gridverse.representations.spaces import SpaceType
        cls = {'Orientation': Orientation, 'Action': Action, 'Color': go.Color,
               'DoorStatus': go.Door.Status, 'SpaceType': SpaceType}[j['enum']]
        return cls[j['name']]
    if 'Position' in j:
        return Position(*j['Position'])
    if 'Shape' in j:
        return Shape(*j['Shape'])
    if 'Area' in j:
        return Area(tuple(j['Area'][0]), tuple(j['Area'][1]))
    if 'Transform' in j:
        return Transform(decode(j['Transform'][0]), decode(j['Transform'][1]))
    if 'cls' in j:
        cls = getattr(go, j['cls'])
        if j['cls'] == 'Door':
            return cls(go.Door.Status[j['state']], go.Color[j['color']])
        if j['cls'] == 'Box':
            return cls(decode(j['content']))
        if 'color' in j:
            return cls(go.Color[j['color']])
        return cls()
    if 'class' in j:
        return getattr(go, j['class'])
    if 'Grid' in j:
        return Grid([[decode(c) for c in row] for row in j['Grid']])
    if 'Agent' in j:
        a = j['Agent']
        return Agent(decode(a['position']), decode(a['orientation']), decode(a['grid_object']))
    if 'State' in j:
        return State(decode(j['State']['grid']), decode(j['State']['agent']))
    if 'Observation' in j:
        return Observation(decode(j['Observation']['grid']), decode(j['Observation']['agent']))
    if 'Rng' in j:
        return ScriptedRng(j['Rng'], fallback_seed=j.get('salt', 0))
    if 'fn' in j:
        ret = j['ret'] if isinstance(j['ret'], str) else tuple(j['ret'])
        return ScriptedFn(ret, j['fn'], seed=len(json.dumps(j)) + j.get('salt', 0))
    if 'object' in j:
        import types
        return types.SimpleNamespace(**{k: decode(v) for k, v in j['object'].items()})
    if 'new' in j:
        cls = resolve(j['new'])
        return cls(*[decode(x) for x in j['args']], **{k: decode(v) for k, v in j.get('kwargs', {}).items()})
    if 'tuple' in j:
        return tuple(decode(x) for x in j['tuple'])
    if 'raw' in j:
        cls = resolve(j['raw'])
        o = cls.__new__(cls)
        for k, v in j['fields'].items():
            object.__setattr__(o, k, decode(v))
        return o
    if 'dict' in j:
        return {k: decode(v) for k, v in j['dict'].items()}
    if 'set' in j and 'with' not in j:
        return set(decode(x) for x in j['set'])
    if 'with' in j:
        o = decode(j['with'])
        for k, v in j['set'].items():
            object.__setattr__(o, k, decode(v))
        return o
    if 'token' in j:
        return StubToken(j['token'], 0)
    if 'BoolArr' in j or 'IntArr' in j:
        import numpy as np
        k = 'BoolArr' if 'BoolArr' in j else 'IntArr'
        return np.array(j[k], dtype=bool if k == 'BoolArr' else int).reshape(tuple(j['shape']))
    if 'NextPosFn' in j:
        import gym_gridverse.envs.visibility_functions as vf
        return getattr(vf, j['NextPosFn'])
    if 'ObjEncoder' in j:
        import numpy as np
        return lambda o: np.array([o.type_index() * 7 + 1, o.state_index + 2, o.color.value * 3])
    if 'ObjPred' in j:
        import pyvc_rt
        allowed = [decode(x) for x in j['ObjPred']]
        def pred(o, allowed=allowed):
            from gym_gridverse.grid_object import Box
            if isinstance(o, Box):
                return pred(o.content) and any(isinstance(a, Box) for a in allowed) or (
                    j.get('boxes', True) and pred(o.content))
            return any(pyvc_rt.same(o, a) for a in allowed)
        return pred
    if 'VisFn' in j:
        return ScriptedVisFn(j['VisFn'], seed=len(json.dumps(j)))
    if 'const' in j:
        return ast.literal_eval(j['const'])
    if 'none' in j:
        return None
    raise ValueError(f'cannot decode {j}')


# ------------------------------------------------------------------ random inputs

COLORS = ['NONE', 'RED', 'GREEN', 'BLUE', 'YELLOW']


def rand_obj(r, depth=0):
    c = r.choice(['NoneGridObject', 'Hidden', 'Floor', 'Floor', 'Floor', 'Wall', 'Exit', 'Door', 'Key',
                  'MovingObstacle', 'Box', 'Telepod', 'Beacon'])
    if depth > 2 and c == 'Box':
        c = 'Floor'
    if depth in (1, 2) and c != 'Box' and r.random() < 0.25:
        c = 'Box'          # nested boxes are rare otherwise
    return rand_obj_of(r, c, depth)


def rand_obj_of(r, c, depth=0):
    if c == 'Door':
        return {'cls': c, 'state': r.choice(['OPEN', 'CLOSED', 'LOCKED']), 'color': r.choice(COLORS)}
    if c in ('Exit', 'Key', 'Telepod', 'Beacon'):
        return {'cls': c, 'color': r.choice(COLORS)}
    if c == 'Box':
        inner = rand_obj(r, depth + 1)
        while inner['cls'] in ('NoneGridObject', 'Hidden'):
            inner = rand_obj(r, depth + 1)
        return {'cls': c, 'content': inner}
    return {'cls': c}


def rand_grid(r, h=None, w=None):
    h = h or r.randint(1, 4)
    w = w or r.randint(1, 4)
    mode = r.random()
    if mode < 0.35:
        return {'Grid': [[rand_obj(r) for _ in range(w)] for _ in range(h)]}, h, w
    # small palette: repeated kinds/colours (paired telepods, several obstacles, keys matching doors...)
    palette = [rand_obj(r) for _ in range(r.randint(1, 3))]
    if mode < 0.7:
        palette += [{'cls': 'Floor'}] * r.randint(1, 4)
    return {'Grid': [[dict(r.choice(palette)) for _ in range(w)] for _ in range(h)]}, h, w


def rand_input(sort, r, ctx=None):
    if isinstance(sort, (list, tuple)):
        if sort[0] == 'const':
            return {'const': repr(sort[1])}
        if sort[0] == 'oneof':
            return {'const': repr(r.choice(list(sort[1])))}
        if sort[0] == 'list':
            return [rand_input(sort[1], r) for _ in range(sort[2])]
        if sort[0] == 'fn':
            return {'fn': [], 'ret': sort[1], 'salt': r.randint(0, 10 ** 6)}
        if sort[0] == 'distinct-set':
            if sort[1] == 'Color':
                return {'set': [{'enum': 'Color', 'name': n} for n in r.sample(COLORS, sort[2])]}
            raise ValueError('distinct-set of ' + str(sort[1]))
        if sort[0] == 'opt':
            return {'none': 1} if r.random() < 0.4 else rand_input(sort[1], r)
        if sort[0] == 'raw':
            return {'raw': sort[1], 'fields': {k: rand_input(v, r) for k, v in sort[2].items()}}
        if sort[0] == 'dict':
            return {'dict': {k: rand_input(v, r) for k, v in sort[1].items()}}
        if sort[0] == 'tuple':
            return {'tuple': [rand_input(x, r) for x in sort[1]]}
        if sort[0] == 'with':
            return {'with': rand_input(sort[1], r), 'set': {k: rand_input(v, r) for k, v in sort[2].items()}}
        if sort[0] == 'object':
            return {'object': {k: rand_input(v, r) for k, v in sort[1].items()}}
        if sort[0] == 'new':
            return {'new': sort[1], 'args': [rand_input(x, r) for x in sort[2]],
                    'kwargs': {k: rand_input(v, r) for k, v in (sort[3] if len(sort) > 3 else {}).items()}}
    if sort == 'int':
        return r.randint(-6, 6)
    if sort == 'nat':
        return r.randint(0, 6)
    if sort == 'IntSeq':
        return [r.randint(-3, 9) for _ in range(r.choice([0, 1, 1, 2, 3, 4, 6]))]
    if sort == 'small':
        return r.choice([-1, 0, 1, 1, 2, 2, 2, 3, 3, 4, 5])
    if sort == 'bool':
        return r.random() < 0.5
    if sort == 'float':
        return r.choice([0.0, 1.0, -1.0, 0.5, 2.5, -3.25])
    if sort == 'None':
        return {'none': 1}
    if sort == 'SpaceType':
        return {'enum': 'SpaceType', 'name': r.choice(['CATEGORICAL', 'DISCRETE', 'CONTINUOUS'])}
    if sort == 'str':
        return 'name'
    if sort == 'Token':
        return {'token': f'tok{r.randint(0, 10 ** 9)}'}
    if sort == 'Orientation':
        return {'enum': sort, 'name': r.choice(['FORWARD', 'BACKWARD', 'LEFT', 'RIGHT'])}
    if sort == 'Action':
        return {'enum': sort, 'name': r.choice(['MOVE_FORWARD', 'MOVE_BACKWARD', 'MOVE_LEFT', 'MOVE_RIGHT',
                                                'TURN_LEFT', 'TURN_RIGHT', 'ACTUATE', 'PICK_N_DROP'])}
    if sort == 'Color':
        return {'enum': sort, 'name': r.choice(COLORS)}
    if sort == 'DoorStatus':
        return {'enum': sort, 'name': r.choice(['OPEN', 'CLOSED', 'LOCKED'])}
    if sort == 'Position':
        return {'Position': [r.randint(-5, 5), r.randint(-5, 5)]}
    if sort == 'Shape':
        if r.random() < 0.5:
            return {'Shape': [r.choice([5, 7, 9, 11, 13]), r.choice([5, 7, 9, 11, 13])]}
        return {'Shape': [r.randint(-1, 13), r.randint(-1, 13)]}
    if sort == 'Area':
        a, b = sorted([r.randint(-5, 5), r.randint(-5, 5)])
        c, d = sorted([r.randint(-5, 5), r.randint(-5, 5)])
        return {'Area': [[a, b], [c, d]]}
    if sort == 'Transform':
        return {'Transform': [rand_input('Position', r), rand_input('Orientation', r)]}
    if sort == 'Obj':
        return rand_obj(r)
    if sort == 'Class0':
        return {'class': r.choice(['NoneGridObject', 'Hidden', 'Floor', 'Wall', 'MovingObstacle'])}
    if sort == 'Class':
        return {'class': r.choice(['NoneGridObject', 'Hidden', 'Floor', 'Wall', 'Exit', 'Door', 'Key',
                                   'MovingObstacle', 'Box', 'Telepod', 'Beacon'])}
    if sort == 'Grid':
        return rand_grid(r)[0]
    if sort == 'Agent':
        return {'Agent': {'position': rand_input('Position', r), 'orientation': rand_input('Orientation', r),
                          'grid_object': rand_obj(r)}}
    if sort in ('State', 'Observation'):
        g, h, w = rand_grid(r)
        # agent mostly inside the grid, often on an edge
        u = r.random()
        if u < 0.45:
            pos = {'Position': [r.randint(0, h - 1), r.randint(0, w - 1)]}
        elif u < 0.9:
            # prefer standing on a non-floor cell (telepod, exit, obstacle, open door ...)
            cells = [(y, x) for y in range(h) for x in range(w) if g['Grid'][y][x]['cls'] != 'Floor']
            y, x = r.choice(cells) if cells else (r.randint(0, h - 1), r.randint(0, w - 1))
            pos = {'Position': [y, x]}
        else:
            pos = rand_input('Position', r)
        item = rand_obj(r) if r.random() < 0.6 else {'cls': 'NoneGridObject'}
        return {sort: {'grid': g, 'agent': {'Agent': {'position': pos, 'orientation': rand_input('Orientation', r),
                                                      'grid_object': item}}}}
    if sort == 'Rng':
        return {'Rng': [], 'salt': r.randint(0, 10 ** 6)}
    if sort == 'VisFn':
        return {'VisFn': [], 'salt': r.randint(0, 10 ** 6)}
    if sort in ('BoolArr', 'IntArr'):
        h, w = r.randint(1, 4), r.randint(1, 4)
        if sort == 'BoolArr':
            return {sort: [[r.random() < 0.4 for _ in range(w)] for _ in range(h)], 'shape': [h, w]}
        return {sort: [[r.randint(0, 3) for _ in range(w)] for _ in range(h)], 'shape': [h, w]}
    if sort == 'NextPosFn':
        return {'NextPosFn': '_partially_occluded_next_positions_front_' + r.choice(['left', 'right'])}
    if sort == 'ObjEncoder':
        return {'ObjEncoder': 'affine-triple'}
    if sort == 'ObjPred':
        # a type/colour space: flat objects of some classes and colours (+ open variant of every door), boxes of them
        classes = r.sample(['NoneGridObject', 'Hidden', 'Floor', 'Wall', 'Exit', 'Door', 'Key', 'MovingObstacle',
                            'Telepod', 'Beacon'], r.randint(3, 10))
        if r.random() < 0.8 and 'Floor' not in classes:
            classes.append('Floor')
        colors = r.sample(COLORS, r.randint(1, 5))
        out = []
        for c in classes:
            if c == 'Door':
                out += [{'cls': c, 'state': s_, 'color': col} for s_ in ('OPEN', 'CLOSED', 'LOCKED') for col in colors]
            elif c in ('Exit', 'Key', 'Telepod', 'Beacon'):
                out += [{'cls': c, 'color': col} for col in colors]
            else:
                out.append({'cls': c})
        return {'ObjPred': out}
    raise ValueError(f'no generator for sort {sort}')


# ------------------------------------------------------------------------ running

def resolve(target):
    mod, qual = target.split(':')
    obj = importlib.import_module(mod)
    for part in qual.split('.'):
        obj = getattr(obj, part)
    return obj


def find_contract(module, name):
    import pyvc_rt
    importlib.import_module(module)
    for c in pyvc_rt.REGISTRY:
        if c.name == name and c.fn.__module__ == module:
            return c
    raise KeyError(name)


class ScriptedFn:
    """callable returning scripted values of a sort (then random ones); records its calls"""

    def __init__(self, ret_sort, script=None, seed=0):
        self.ret = ret_sort
        self.script = list(script or [])
        self.calls = []
        self.r = random.Random(seed)

    def __call__(self, *a, **k):
        n = len(self.calls)
        j = self.script[n] if n < len(self.script) else rand_input(self.ret, self.r)
        v = decode(j)
        import pyvc_rt
        self.calls.append({'args': list(a), 'kwargs': dict(k), 'result': v, 'seq': pyvc_rt.next_seq()})
        return v


class StubToken:
    def __init__(self, name, k):
        self.name, self.k = name, k

    def __repr__(self):
        return f'<result {self.k} of {self.name}>'


def global_random_state():
    import random as _r
    import numpy as np
    import gym_gridverse.rng as gvr
    g = gvr._gv_rng
    return (repr(_r.getstate())[:2000], repr(np.random.get_state())[:4000],
            None if g is None else repr(g.bit_generator.state))


def install_stub(st, sname, ret=None, inputs_json=None):
    """recording pass-through for a stubbed callee (the real callee still runs)"""
    mod, qual = sname.split(':')
    owner = importlib.import_module(mod)
    parts = qual.split('.')
    for p in parts[:-1]:
        owner = getattr(owner, p)
    attr = parts[-1]
    orig = owner.__dict__[attr] if hasattr(owner, '__dict__') and attr in owner.__dict__ else getattr(owner, attr)
    real = getattr(owner, attr)
    calls = st.stub_calls.setdefault(sname, [])
    rnd_stub = random.Random(len(json.dumps(inputs_json or {})))

    def wrapper(*a, **k):
        # opaque stub, as in the symbolic run: only the identity of the result is known
        n = len(calls)
        if ret is None:
            res = StubToken(sname, n)
        else:
            key = f'stub:{sname}:{n}'
            j = (inputs_json or {}).get(key)
            res = decode(j) if j is not None else decode(rand_input(ret, rnd_stub))
        import pyvc_rt
        rec = {'args': list(a), 'kwargs': dict(k), 'result': res, 'seq': pyvc_rt.next_seq()}
        calls.append(rec)
        return rec['result']
    if isinstance(orig, property):
        setattr(owner, attr, property(wrapper))
    else:
        setattr(owner, attr, wrapper)
    patched = [(owner, attr, orig)]
    if not isinstance(owner, type):
        # modules that did `from x import f` hold their own reference
        for mname, m in list(sys.modules.items()):
            if m is None or m is owner or not mname.startswith('gym_gridverse'):
                continue
            for k2, v2 in list(vars(m).items()):
                if v2 is real:
                    setattr(m, k2, wrapper)
                    patched.append((m, k2, real))
    return patched


def shared_mutable_object(values):
    """a Door or Box instance (the grid objects with mutable attributes) that is reachable along two different paths
    from the given states / grids / agents, or None"""
    try:
        from gym_gridverse.agent import Agent
        from gym_gridverse.grid import Grid
        from gym_gridverse.grid_object import Box, Door
    except Exception:
        return None
    seen = {}

    def visit_obj(o, where):
        while isinstance(o, (Door, Box)):
            if id(o) in seen and seen[id(o)] != where:
                return f'{o!r} is both at {seen[id(o)]} and at {where}'
            seen[id(o)] = where
            if not isinstance(o, Box):
                break
            o, where = o.content, where + '.content'
        return None

    def visit(v, tag, done):
        if id(v) in done:
            return None
        done.add(id(v))
        if isinstance(v, Grid):
            for y, row in enumerate(v.objects):
                for x, o in enumerate(row):
                    r = visit_obj(o, f'{tag}[{y},{x}]')
                    if r:
                        return r
            return None
        if isinstance(v, Agent):
            return visit_obj(v.grid_object, f'{tag}.grid_object')
        if hasattr(v, 'grid') and hasattr(v, 'agent'):
            return visit(v.grid, tag + '.grid', done) or visit(v.agent, tag + '.agent', done)
        if isinstance(v, (list, tuple)):
            for k, x in enumerate(v):
                r = visit(x, f'{tag}[{k}]', done)
                if r:
                    return r
        return None

    # each top-level value is its own universe: an output state may legitimately hold the very objects of its input
    for k, v in enumerate(values):
        seen.clear()
        r = visit(v, f'value{k}', set())
        if r:
            return r
    return None


def run_contract(spec, inputs_json, only=None):
    import pyvc_rt
    st = pyvc_rt._State()
    pyvc_rt.ST = st
    st.only = only
    out = {'contract': spec.name, 'pre_ok': True, 'exception': None, 'clauses': [], 'rng_deviated': False}
    try:
        vals = {k: decode(v) for k, v in inputs_json.items() if not k.startswith('stub:')}
    except Exception as e:
        # the input cannot be built (a constructor of an input object rejects its arguments): not an input at all
        out['pre_ok'] = False
        out['undecodable'] = f'{type(e).__name__}: {e}'
        return out
    ghost = spec.opts.get('ghost', [])
    args = [vals[p] for p in spec.args if p not in spec.kwonly and p not in ghost]
    kwargs = {p: vals[p] for p in spec.kwonly}
    byname = {p: vals[p] for p in spec.args}
    if spec.opts.get('call') is not None:
        args = list(spec.opts['call'](**byname))
        kwargs = {}
    if spec.kind == 'lemma':
        st.phase = 'post'
        lpatches = []
        lstubs = spec.opts.get('stubs', {})
        if isinstance(lstubs, (list, tuple)):
            lstubs = {s_: None for s_ in lstubs}
        for sname, ret in lstubs.items():
            lpatches.extend(install_stub(st, sname, ret, inputs_json))
        try:
            spec.fn(**byname)
        except Exception as e:
            out['contract_error'] = f'{type(e).__name__}: {e}'
        finally:
            for owner, attr, orig in lpatches:
                setattr(owner, attr, orig)
        out['clauses'] = st.clauses
        return out
    st.phase = 'pre'
    try:
        spec.fn(**byname)
    except Exception as e:
        out['pre_ok'] = False
        out['contract_error'] = f'pre: {type(e).__name__}: {e}'
        return out
    out['pre_ok'] = st.pre_ok
    if not st.pre_ok:
        return out
    target = resolve(spec.target)
    if isinstance(target, property):
        target = target.fget
    import gym_gridverse.rng as _gvr
    _gvr.reset_gv_rng(20260926)   # the library generator exists: any change of its state is a real draw
    snap0 = global_random_state()
    st.phase = 'body'
    patches = []
    stubs = spec.opts.get('stubs', [])
    if isinstance(stubs, (list, tuple)):
        stubs = {s_: None for s_ in stubs}
    for sname, ret in stubs.items():
        if isinstance(ret, (list, tuple)) and ret and ret[0] == 'native-real':
            continue  # natively the real callee runs
        patches.extend(install_stub(st, sname, ret, inputs_json))
    try:
        st.result = target(*args, **kwargs)
    except Exception as e:
        st.exc = e
        out['exception'] = f'{type(e).__name__}: {e}'
    finally:
        for owner, attr, orig in patches:
            setattr(owner, attr, orig)
    st.phase = 'post'
    st.old_i = 0
    if global_random_state() != snap0:
        st.clauses.append(('implicit:no-global-state-no-hidden-randomness', False,
                           'a global random source (numpy.random / random / gym_gridverse.rng._gv_rng) changed'))
    dup = shared_mutable_object(list(vals.values()) + [st.result])
    if dup is not None:
        # trusted-base item T5 of the symbolic model, checked on the real objects: the inputs are built from fresh
        # objects, so a mutable grid object reachable twice afterwards was put there by the code under contract
        st.clauses.append(('implicit:no-mutable-grid-object-in-two-places', False, dup))

    def possible_hook(rng, thunk):
        import itertools
        doms = []
        for rg in rng.ranges:
            if rg[0] == 'choice':
                doms.append([{'kind': 'choice', 'values': [i]} for i in range(max(rg[1], 0))])
            elif rg[0] == 'integers':
                doms.append([{'kind': 'integers', 'values': [i]} for i in range(rg[1], rg[2])])
        if len(rng.log) != len(doms):
            import pyvc_rt
            raise pyvc_rt.HarnessLimit('possible(): unsupported draw kinds ' + str(rng.log))
        n = 1
        for d in doms:
            n *= max(len(d), 1)
        if n > 4096:
            import pyvc_rt
            raise pyvc_rt.HarnessLimit('possible(): too many outcomes')
        rng_name = next(k for k, v in vals.items() if v is rng)
        for script in itertools.product(*doms):
            j2 = dict(inputs_json)
            j2[rng_name] = {'Rng': list(script)}
            vals2 = {k: decode(v) for k, v in j2.items() if not k.startswith('stub:')}
            args2 = [vals2[p] for p in spec.args if p not in spec.kwonly and p not in ghost]
            kwargs2 = {p: vals2[p] for p in spec.kwonly}
            try:
                target(*args2, **kwargs2)
            except Exception:
                continue
            saved = []
            for k, v in vals.items():
                if hasattr(v, '__dict__') and not isinstance(v, (ScriptedRng,)):
                    saved.append((v, dict(v.__dict__)))
                    v.__dict__.update(vals2[k].__dict__)
            try:
                if thunk():
                    return True
            finally:
                for v, d in saved:
                    v.__dict__.clear()
                    v.__dict__.update(d)
        return False
    def hashseed_hook():
        import subprocess, tempfile
        HASHSEED_RUNS[spec.name] = HASHSEED_RUNS.get(spec.name, 0) + 1
        if HASHSEED_RUNS[spec.name] > HASHSEED_BUDGET:
            return 0   # budget per contract and harness run (each re-run starts five interpreters)
        reprs = set()
        with tempfile.NamedTemporaryFile('w', suffix='.json', delete=False) as f:
            json.dump({'module': spec.fn.__module__, 'contract': spec.name, 'inputs': inputs_json}, f)
            path = f.name
        try:
            for hs in ('1', '2', '3', '4', '5'):
                env = dict(os.environ, PYTHONHASHSEED=hs, PYVC_REPO=REPO)
                p = subprocess.run([sys.executable, os.path.abspath(__file__), 'rerun', path], capture_output=True,
                                   text=True, env=env, timeout=120)
                lines = [l for l in p.stdout.splitlines() if l.startswith('RESULT ')]
                reprs.add(lines[-1] if lines else 'ERR ' + p.stderr[-200:])
        finally:
            os.remove(path)
        return 0 if len(reprs) == 1 else 1
    st.hashseed_hook = hashseed_hook
    st.possible_hook = possible_hook
    try:
        spec.fn(**byname)
    except Exception as e:
        out['contract_error'] = f'post: {type(e).__name__}: {e}\n{traceback.format_exc()}'
    out['clauses'] = st.clauses
    for v in vals.values():
        if isinstance(v, ScriptedRng) and v.deviated:
            out['rng_deviated'] = True
    try:
        out['result_repr'] = repr(st.result)[:300]
    except Exception:
        pass
    return out


def cmd_replay(path):
    with open(path) as f:
        rp = json.load(f)
    spec = find_contract(rp['module'], rp['contract'])
    res = run_contract(spec, rp['inputs'], only=rp.get('clause'))
    print(json.dumps(res))


def twin_json(j, r, changed):
    """a copy of the JSON input that differs where `==` of the library cannot see it (box contents);
    if there is no such place, one grid cell is changed instead"""
    if isinstance(j, list):
        return [twin_json(x, r, changed) for x in j]
    if not isinstance(j, dict):
        return j
    if j.get('cls') == 'Box':
        inner = j['content']
        alt = {'cls': 'Key', 'color': 'RED'} if inner != {'cls': 'Key', 'color': 'RED'} else {'cls': 'Wall'}
        changed.append('box')
        return {'cls': 'Box', 'content': alt}
    return {k: twin_json(v, r, changed) for k, v in j.items()}


def history_check(spec, inputs, r):
    """C03: asking the same question again after an intervening call on a look-alike input gives an equal
    answer (caches keyed by `==`/hash, module-level state, ... would show here)"""
    import pyvc_rt
    if spec.kind == 'lemma' or spec.opts.get('stubs'):
        return None
    ghost = spec.opts.get('ghost', [])
    target = resolve(spec.target)
    if isinstance(target, property):
        target = target.fget

    def run(j):
        vals = {k: decode(v) for k, v in j.items() if not k.startswith('stub:')}
        args = [vals[p] for p in spec.args if p not in spec.kwonly and p not in ghost]
        kwargs = {p: vals[p] for p in spec.kwonly}
        if spec.opts.get('call') is not None:
            args, kwargs = list(spec.opts['call'](**{p: vals[p] for p in spec.args})), {}
        try:
            res = ('ok', target(*args, **kwargs))
        except Exception as e:
            res = ('raise', type(e).__name__)
        return res, [a for a in args if not callable(a) and not isinstance(a, ScriptedRng)]

    changed = []
    tw = twin_json(inputs, r, changed)
    if not changed:
        # change one grid cell somewhere
        def poke(j):
            if isinstance(j, dict) and 'Grid' in j and j['Grid'] and j['Grid'][0]:
                g = [list(row) for row in j['Grid']]
                y, x = r.randrange(len(g)), r.randrange(len(g[0]))
                g[y][x] = rand_obj(r)
                changed.append('cell')
                return {'Grid': g}
            if isinstance(j, dict):
                return {k: poke(v) for k, v in j.items()}
            if isinstance(j, list):
                return [poke(v) for v in j]
            return j
        tw = poke(inputs)
    if not changed:
        return None
    r1, a1 = run(inputs)
    run(tw)
    r3, a3 = run(inputs)
    ok = r1[0] == r3[0] and (pyvc_rt.same(r1[1], r3[1]) if r1[0] == 'ok' else r1[1] == r3[1]) and all(
        pyvc_rt.same(x, y) for x, y in zip(a1, a3))
    return ok


def correlate(inputs, spec, r):
    """make independent random inputs fit together more often (a position inside the grid it refers to)"""
    g = inputs.get('grid') or inputs.get('self') or inputs.get('g')
    if isinstance(g, dict) and 'Grid' in g:
        h, w = len(g['Grid']), len(g['Grid'][0])
        for p, s_ in spec.args.items():
            if s_ == 'Position' and r.random() < 0.8:
                inputs[p] = {'Position': [r.randint(0, h - 1), r.randint(0, w - 1)]}
        if 'position' in inputs and spec.name.startswith('v_partially') and r.random() < 0.8:
            inputs['position'] = {'Position': [h - 1, r.randint(0, w - 1)]}


FRONT = {'FORWARD': (-1, 0), 'BACKWARD': (1, 0), 'LEFT': (0, -1), 'RIGHT': (0, 1)}


def correlate_front(inputs, spec, r):
    """(state, action) inputs: half of the time something worth acting on is put in front of the agent (doors of
    every status, keys, boxes and boxes inside boxes, telepods ...) and the action is one that acts on it"""
    st = inputs.get('state')
    if not (isinstance(st, dict) and 'State' in st and 'action' in inputs and r.random() < 0.5):
        return
    try:
        grid = st['State']['grid']['Grid']
        ag = st['State']['agent']['Agent']
        y, x = ag['position']['Position']
        dy, dx = FRONT[ag['orientation']['name']]
    except (KeyError, TypeError):
        return
    h, w = len(grid), len(grid[0])
    fy, fx = y + dy, x + dx
    if not (0 <= y < h and 0 <= x < w and 0 <= fy < h and 0 <= fx < w):
        return
    kind = r.choice(['Box', 'Box', 'Box2', 'Box3', 'Door', 'Door', 'Key', 'Telepod', 'MovingObstacle', 'Floor', 'Exit', 'Beacon'])
    if kind in ('Box2', 'Box3'):
        inner = rand_obj_of(r, r.choice(['Key', 'Floor', 'Door', 'Wall']), 3)
        for _ in range(2 if kind == 'Box2' else 3):
            inner = {'cls': 'Box', 'content': inner}
        obj = inner
    else:
        obj = rand_obj_of(r, kind, 0)
    grid[fy][fx] = obj
    if isinstance(inputs['action'], dict) and 'enum' in inputs['action'] and r.random() < 0.7:
        inputs['action'] = {'enum': 'Action', 'name': r.choice(['ACTUATE', 'ACTUATE', 'PICK_N_DROP', 'MOVE_FORWARD'])}
    if obj['cls'] == 'Door' and r.random() < 0.5:
        ag['grid_object'] = {'cls': 'Key', 'color': r.choice([obj['color'], r.choice(COLORS)])}


def cmd_rerun(path):
    """run the target once on the given inputs and print a canonical repr of the outcome"""
    with open(path) as f:
        rp = json.load(f)
    spec = find_contract(rp['module'], rp['contract'])
    vals = {k: decode(v) for k, v in rp['inputs'].items() if not k.startswith('stub:')}
    ghost = spec.opts.get('ghost', [])
    args = [vals[p] for p in spec.args if p not in spec.kwonly and p not in ghost]
    kwargs = {p: vals[p] for p in spec.kwonly}
    target = resolve(spec.target)
    try:
        r = target(*args, **kwargs)
        print('RESULT ' + repr(r))
    except Exception as e:
        print('RESULT raised ' + type(e).__name__)


def correlate_step(inputs, spec, r):
    """(state, action, next_state) triples: most of the time next_state is a small edit of state (the agent moved,
    a door changed, one cell replaced), and a `unique object` parameter really is unique, with ghost positions set"""
    import copy as _c
    if not ('state' in inputs and 'next_state' in inputs and r.random() < 0.75):
        return
    st = inputs['state']['State']
    grid = st['grid']['Grid']
    h, w = len(grid), len(grid[0])
    if 'object_type' in spec.args and ('c1' in spec.args or 'c2' in spec.args):
        for row in grid:
            for x in range(w):
                if row[x]['cls'] == 'Exit':
                    row[x] = {'cls': 'Floor'}
        y1, x1 = r.randrange(h), r.randrange(w)
        grid[y1][x1] = {'cls': 'Exit', 'color': 'NONE'}
        inputs['object_type'] = {'class': 'Exit'}
        if 'c1' in spec.args:
            inputs['c1'] = {'Position': [y1, x1]}
    nxt = _c.deepcopy(inputs['state'])
    ns = nxt['State']
    ng = ns['grid']['Grid']
    for _ in range(r.randint(0, 2)):
        k = r.random()
        if k < 0.4:
            p = ns['agent']['Agent']['position']['Position']
            d = r.choice([(-1, 0), (1, 0), (0, -1), (0, 1)])
            q = [p[0] + d[0], p[1] + d[1]]
            if 0 <= q[0] < h and 0 <= q[1] < w:
                ns['agent']['Agent']['position'] = {'Position': q}
        elif k < 0.7:
            doors = [(y, x) for y in range(h) for x in range(w) if ng[y][x]['cls'] == 'Door']
            if doors:
                y, x = r.choice(doors)
                ng[y][x] = dict(ng[y][x], state=r.choice(['OPEN', 'CLOSED', 'LOCKED']))
            else:
                y, x = r.randrange(h), r.randrange(w)
                if ng[y][x]['cls'] != 'Exit':
                    ng[y][x] = r.choice([{'cls': 'Wall'}, {'cls': 'Floor'}, {'cls': 'Door', 'state': 'OPEN', 'color': 'RED'}])
        else:
            y, x = r.randrange(h), r.randrange(w)
            if ng[y][x]['cls'] != 'Exit':
                ng[y][x] = r.choice([{'cls': 'Wall'}, {'cls': 'Floor'}, {'cls': 'Key', 'color': 'BLUE'}])
    inputs['next_state'] = nxt
    if 'c2' in spec.args:
        for y in range(h):
            for x in range(w):
                if ng[y][x]['cls'] == 'Exit':
                    inputs['c2'] = {'Position': [y, x]}


def cmd_crosscheck(module, n, seed, names):
    import pyvc_rt
    importlib.import_module(module)
    out = {}
    for spec in [c for c in pyvc_rt.REGISTRY if c.fn.__module__ == module]:
        if names and spec.name not in names:
            continue
        if spec.opts.get('native') is False:
            continue
        r = random.Random(f'{seed}:{spec.name}')
        stats = {'runs': 0, 'pre_ok': 0, 'failures': [], 'errors': []}
        tries = 0
        while stats['pre_ok'] < n and tries < n * 20:
            tries += 1
            inputs = {p: rand_input(s, r) for p, s in spec.args.items()}
            correlate(inputs, spec, r)
            correlate_step(inputs, spec, r)
            correlate_front(inputs, spec, r)
            res = run_contract(spec, inputs)
            stats['runs'] += 1
            if res.get('contract_error'):
                if len(stats['errors']) < 3:
                    stats['errors'].append({'inputs': inputs, 'error': res['contract_error']})
                if spec.kind != 'lemma' and not res['pre_ok']:
                    continue
            if not res['pre_ok']:
                continue
            stats['pre_ok'] += 1
            bad = [c for c in res['clauses'] if not c[1]]
            if 'C03' in spec.props and stats['pre_ok'] % 2 == 0:
                try:
                    hc = history_check(spec, inputs, r)
                except Exception as e:
                    hc = None
                if hc is False:
                    bad.append(('implicit:history-independent', False,
                                'same call gave a different answer after an intervening call on a look-alike input'))
            if bad and len(stats['failures']) < 5:
                stats['failures'].append({'inputs': inputs, 'clauses': bad, 'exception': res['exception']})
        out[spec.name] = stats
    print(json.dumps(out))


def scripted_rng_selfcheck():
    """the scripted generator of this harness raises ValueError in exactly the situations numpy's Generator does
    (the symbolic model of lib.py is tied to the scripted one by the contracts on rng.py, proved and cross-checked)"""
    import numpy as np
    n_cmp = 0

    def outcome(f):
        try:
            r = f()
            return ('ok', None if r is None else (len(r) if hasattr(r, '__len__') else 1))
        except ValueError:
            return ('ValueError', None)
        except Exception as e:      # any other exception type is reported as itself
            return (type(e).__name__, None)

    for n in range(-2, 6):
        real, mine = np.random.default_rng(0), ScriptedRng([], 0)
        a, b = outcome(lambda: real.choice(n)), outcome(lambda: mine.choice(n))
        assert a[0] == b[0], ('choice(n)', n, a, b)
        n_cmp += 1
        for size in range(-1, 7):
            for replace in (True, False):
                real, mine = np.random.default_rng(0), ScriptedRng([], 0)
                a = outcome(lambda: real.choice(n, size=size, replace=replace))
                b = outcome(lambda: mine.choice(n, size=size, replace=replace))
                assert a == b, ('choice(n, size, replace)', n, size, replace, a, b)
                if a[0] == 'ok' and not replace:
                    v = list(mine.choice(n, size=size, replace=False))
                    assert len(set(v)) == len(v) and all(0 <= x < n for x in v), ('sample', n, size, v)
                n_cmp += 1
    for low in range(-3, 4):
        for high in range(-3, 4):
            real, mine = np.random.default_rng(0), ScriptedRng([], 0)
            a, b = outcome(lambda: real.integers(low, high)), outcome(lambda: mine.integers(low, high))
            assert a[0] == b[0], ('integers', low, high, a, b)
            if b[0] == 'ok':
                assert low <= mine.integers(low, high) < high
            n_cmp += 1
    for k in range(0, 6):
        x = list(range(k))
        ScriptedRng([], k).shuffle(x)
        assert sorted(x) == list(range(k)), ('shuffle', k, x)
        n_cmp += 1
    return {'generator_error_cases_compared': n_cmp}


def main():
    setup_path()
    cmd = sys.argv[1]
    if cmd == 'replay':
        cmd_replay(sys.argv[2])
    elif cmd == 'rerun':
        cmd_rerun(sys.argv[2])
    elif cmd == 'crosscheck':
        cmd_crosscheck(sys.argv[2], int(sys.argv[3]), int(sys.argv[4]), sys.argv[5:])
    elif cmd == 'libmodels':
        import libmodels      # pyvc/libmodels.py (this script's directory is sys.path[0]); free of z3
        res = libmodels.selfcheck()
        res.update(scripted_rng_selfcheck())
        print(json.dumps(res))
    else:
        raise SystemExit('unknown command')


if __name__ == '__main__':
    main()
