"""Bounded stand-ins (run natively under /venv/bin/python): exhaustive enumeration up to a
stated bound for functions the symbolic verifier cannot reach (float trigonometry, numpy
BFS, relational monotonicity).  Labelled `bounded` in the evidence, never counted as proved.

usage: bounded.py <item> <tier> <seed>      -> one JSON line
"""
import itertools
import json
import multiprocessing as mp
import os
import random
import sys

sys.path.insert(0, os.path.dirname(os.path.abspath(__file__)))
import native  # noqa: E402


def _ray_case(args):
    h, w, y0, x0 = args
    from gym_gridverse.geometry import Area, Position
    from gym_gridverse.utils import raytracing as rt
    out = {'evaluations': 0, 'nontrivial': set(), 'failures': []}
    for (oy, ox) in ((0, 0), (-3, 2)):
        area = Area((oy, oy + h - 1), (ox, ox + w - 1))
        origin = Position(oy + y0, ox + x0)
        rays = rt.compute_rays_fancy(origin, area)
        again = rt.cached_compute_rays_fancy(origin, area)
        cached2 = rt.cached_compute_rays_fancy(origin, area)
        if rays != again or again != cached2:
            out['failures'].append({'what': 'cache/determinism', 'area': [h, w, oy, ox], 'origin': [y0, x0]})
        covered = set()
        for k, ray in enumerate(rays):
            out['evaluations'] += 1
            cells = [(p.y, p.x) for p in ray]
            covered.update(cells)
            bad = None
            if not cells or cells[0] != (origin.y, origin.x):
                bad = 'does not start at the origin'
            elif any(not area.contains(p) for p in ray):
                bad = 'leaves the area'
            elif len(set(cells)) != len(cells):
                bad = 'visits a cell twice'
            elif any(max(abs(a[0] - b[0]), abs(a[1] - b[1])) > 1 for a, b in zip(cells, cells[1:])):
                bad = 'jumps between non-adjacent cells'
            else:
                ly, lx = cells[-1]
                if not (ly in (area.ymin, area.ymax) or lx in (area.xmin, area.xmax)):
                    bad = 'does not end on the border'
            if bad:
                if len(out['failures']) < 3:
                    out['failures'].append({'what': bad, 'area': [h, w, oy, ox], 'origin': [y0, x0], 'ray': k,
                                            'cells': cells[:30]})
            if len(cells) > 1:
                out['nontrivial'].add((h, w, y0, x0, tuple(cells)))
        if covered != {(p.y, p.x) for p in area.positions()}:
            out['failures'].append({'what': 'fan does not reach every cell', 'area': [h, w, oy, ox], 'origin': [y0, x0],
                                    'missing': sorted({(p.y, p.x) for p in area.positions()} - covered)[:10]})
        # the cached variant after unrelated queries
        rt.cached_compute_rays_fancy(Position(oy, ox), area)
        if rt.cached_compute_rays_fancy(origin, area) != rays:
            out['failures'].append({'what': 'cache changed a result', 'area': [h, w, oy, ox], 'origin': [y0, x0]})
        # compute_rays (1 degree fan), sampled
        if (y0 + x0) % 3 == 0:
            for ray in rt.compute_rays(origin, area)[::15]:
                out['evaluations'] += 1
                cells = [(p.y, p.x) for p in ray]
                if not cells or cells[0] != (origin.y, origin.x) or len(set(cells)) != len(cells) or any(
                        not area.contains(p) for p in ray):
                    out['failures'].append({'what': 'compute_rays ray malformed', 'area': [h, w, oy, ox], 'origin': [y0, x0]})
    out['nontrivial'] = len(out['nontrivial'])
    return out


def rays(tier, seed):
    n = 7 if tier == 'quick' else 10
    cases = [(h, w, y, x) for h in range(1, n + 1) for w in range(1, n + 1) for y in range(h) for x in range(w)]
    if tier == 'thorough':
        cases += [(13, 13, y, x) for y in range(13) for x in range(13)] + [(7, 13, y, x) for y in range(7) for x in range(13)]
    with mp.Pool(16) as pool:
        res = pool.map(_ray_case, cases, chunksize=8)
    return {
        'what': 'compute_ray / compute_rays_fancy / compute_rays contract (C19)',
        'bound': f'all areas with height,width <= {n}' + (' plus 13x13 and 7x13' if tier == 'thorough' else '')
                 + ', two translations, every origin, every fan ray; cache order variations',
        'evaluations': sum(r['evaluations'] for r in res),
        'distinct_nontrivial': sum(r['nontrivial'] for r in res),
        'failures': [f for r in res for f in r['failures']][:5],
        'samples': [{'area_h_w_origin': list(cases[len(cases) // 2]), 'rays': res[len(cases) // 2]['evaluations']}],
        'exhaustive': True,
    }


def _occ_case(args):
    fn_name, h, w, bits = args
    from gym_gridverse.envs import visibility_functions as vf
    from gym_gridverse.geometry import Position
    from gym_gridverse.grid import Grid
    from gym_gridverse.grid_object import Floor, Wall
    fn = getattr(vf, fn_name)
    out = {'evaluations': 0, 'nontrivial': 0, 'failures': []}
    def grid_of(b):
        return Grid([[Wall() if (b >> (y * w + x)) & 1 else Floor() for x in range(w)] for y in range(h)])
    pos = Position(h - 1, w // 2)
    base = fn(grid_of(bits), pos)
    out['evaluations'] += 1
    if not base[pos.y, pos.x]:
        out['failures'].append({'what': 'own cell not visible', 'fn': fn_name, 'shape': [h, w], 'walls': bits})
    if base.sum() > 1:
        out['nontrivial'] = 1
    # connectivity: every visible cell is linked to the agent through adjacent transparent visible cells
    seen = {(pos.y, pos.x)}
    stack = [(pos.y, pos.x)]
    while stack:
        y, x = stack.pop()
        if (bits >> (y * w + x)) & 1 and (y, x) != (pos.y, pos.x):
            continue  # opaque cells are seen but do not carry the chain on
        for dy in (-1, 0, 1):
            for dx in (-1, 0, 1):
                ny, nx = y + dy, x + dx
                if 0 <= ny < h and 0 <= nx < w and (ny, nx) not in seen and base[ny, nx]:
                    seen.add((ny, nx))
                    stack.append((ny, nx))
    vis = {(y, x) for y in range(h) for x in range(w) if base[y, x]}
    if vis - seen:
        out['failures'].append({'what': 'visible cell not linked to the agent', 'fn': fn_name, 'shape': [h, w],
                                'walls': bits, 'cells': sorted(vis - seen)[:5]})
    for k in range(h * w):
        if not (bits >> k) & 1:
            continue
        y, x = divmod(k, w)
        if not base[y, x]:
            # hidden opaque cell: replacing it must not change the mask (non-interference)
            other = fn(grid_of(bits & ~(1 << k)), pos)
            out['evaluations'] += 1
            if (other != base).any():
                out['failures'].append({'what': 'hidden cell influences the view', 'fn': fn_name, 'shape': [h, w],
                                        'walls': bits, 'cell': [y, x]})
            continue
        # visible opaque cell made transparent: nothing that was visible may become hidden
        more = fn(grid_of(bits & ~(1 << k)), pos)
        out['evaluations'] += 1
        if (base & ~more).any():
            out['failures'].append({'what': 'making a visible opaque cell transparent hid a cell', 'fn': fn_name,
                                    'shape': [h, w], 'walls': bits, 'cell': [y, x]})
    out['failures'] = out['failures'][:2]
    return out


def occlusion(tier, seed):
    shapes = [(3, 3), (2, 5), (3, 4), (4, 3), (3, 5)] if tier == 'quick' else [(3, 3), (2, 5), (3, 4), (4, 3), (3, 5), (4, 4), (2, 7), (5, 3)]
    cases = [(fn, h, w, b) for fn in ('partially_occluded', 'raytracing') for (h, w) in shapes for b in range(1 << (h * w))]
    with mp.Pool(16) as pool:
        res = pool.map(_occ_case, cases, chunksize=256)
    return {
        'what': 'occlusion is monotone, non-interfering and chain-connected (C06 d), partially_occluded and raytracing',
        'bound': f'all wall/floor patterns of views {shapes} x every opaque cell flipped',
        'evaluations': sum(r['evaluations'] for r in res),
        'distinct_nontrivial': sum(r['nontrivial'] for r in res),
        'failures': [f for r in res for f in r['failures']][:5],
        'samples': [{'fn': cases[7][0], 'shape': cases[7][1:3], 'walls_bitmask': cases[7][3]}],
        'exhaustive': True,
    }


def _dij_case(args):
    h, w, bits = args
    from collections import deque
    from gym_gridverse.envs.reward_functions import dijkstra
    layout = tuple(tuple(bool((bits >> (y * w + x)) & 1) for x in range(w)) for y in range(h))
    out = {'evaluations': 0, 'nontrivial': 0, 'failures': []}
    for sy in range(h):
        for sx in range(w):
            d = dijkstra(layout, (sy, sx))
            out['evaluations'] += 1
            ref = {(sy, sx): 0}
            q = deque([(sy, sx)])
            while q:
                y, x = q.popleft()
                for dy, dx in ((-1, 0), (1, 0), (0, -1), (0, 1)):
                    ny, nx = y + dy, x + dx
                    if 0 <= ny < h and 0 <= nx < w and layout[ny][nx] and (ny, nx) not in ref:
                        ref[(ny, nx)] = ref[(y, x)] + 1
                        q.append((ny, nx))
            ok = d.shape == (h, w) and all(
                (d[y, x] == ref[(y, x)]) if (y, x) in ref else (d[y, x] == float('inf'))
                for y in range(h) for x in range(w))
            if len(ref) > 1:
                out['nontrivial'] += 1
            if not ok and len(out['failures']) < 2:
                out['failures'].append({'what': 'dijkstra differs from BFS distance', 'layout': layout, 'source': [sy, sx]})
    return out


def dijkstra_bfs(tier, seed):
    shapes = [(1, 4), (2, 3), (3, 3)] if tier == 'quick' else [(1, 4), (2, 3), (3, 3), (3, 4), (4, 4)]
    cases = [(h, w, b) for (h, w) in shapes for b in range(1 << (h * w))]
    with mp.Pool(16) as pool:
        res = pool.map(_dij_case, cases, chunksize=128)
    return {
        'what': 'reward_functions.dijkstra returns breadth-first distances (inf where unreachable), any cache history',
        'bound': f'all layouts of shapes {shapes} x every source',
        'evaluations': sum(r['evaluations'] for r in res),
        'distinct_nontrivial': sum(r['nontrivial'] for r in res),
        'failures': [f for r in res for f in r['failures']][:5],
        'samples': [{'shape': list(cases[5][:2]), 'free_cells_bitmask': cases[5][2]}],
        'exhaustive': True,
    }


ITEMS = {'rays': rays, 'occlusion': occlusion, 'dijkstra': dijkstra_bfs}


def main():
    native.setup_path()
    item, tier, seed = sys.argv[1], sys.argv[2], int(sys.argv[3])
    res = ITEMS[item](tier, seed)
    print(json.dumps(res))


if __name__ == '__main__':
    main()
