"""Bounded stand-ins (run natively under /venv/bin/python): exhaustive enumeration up to a
stated bound for functions the symbolic verifier cannot reach (float trigonometry, numpy
BFS, relational monotonicity).  Labelled `bounded` in the evidence, never counted as proved.

usage: bounded.py <item> <tier> <seed>      -> one JSON line
"""
import itertools
import json
import multiprocessing as mp
import os
import random
import sys

sys.path.insert(0, os.path.dirname(os.path.abspath(__file__)))
import native  # noqa: E402


def _ray_case(args):
    h, w, y0, x0 = args
    from gym_gridverse.geometry import Area, Position
    from gym_gridverse.utils import raytracing as rt
    out = {'evaluations': 0, 'nontrivial': set(), 'failures': []}
    for (oy, ox) in ((0, 0), (-3, 2)):
        area = Area((oy, oy + h - 1), (ox, ox + w - 1))
        origin = Position(oy + y0, ox + x0)
        rays = rt.compute_rays_fancy(origin, area)
        again = rt.cached_compute_rays_fancy(origin, area)
        cached2 = rt.cached_compute_rays_fancy(origin, area)
        if rays != again or again != cached2:
            out['failures'].append({'what': 'cache/determinism', 'area': [h, w, oy, ox], 'origin': [y0, x0]})
        covered = set()
        for k, ray in enumerate(rays):
            out['evaluations'] += 1
            cells = [(p.y, p.x) for p in ray]
            covered.update(cells)
            bad = None
            if not cells or cells[0] != (origin.y, origin.x):
                bad = 'does not start at the origin'
            elif any(not area.contains(p) for p in ray):
                bad = 'leaves the area'
            elif len(set(cells)) != len(cells):
                bad = 'visits a cell twice'
            elif any(max(abs(a[0] - b[0]), abs(a[1] - b[1])) > 1 for a, b in zip(cells, cells[1:])):
                bad = 'jumps between non-adjacent cells'
            else:
                ly, lx = cells[-1]
                if not (ly in (area.ymin, area.ymax) or lx in (area.xmin, area.xmax)):
                    bad = 'does not end on the border'
            if bad:
                if len(out['failures']) < 3:
                    out['failures'].append({'what': bad, 'area': [h, w, oy, ox], 'origin': [y0, x0], 'ray': k,
                                            'cells': cells[:30]})
            if len(cells) > 1:
                out['nontrivial'].add((h, w, y0, x0, tuple(cells)))
        if covered != {(p.y, p.x) for p in area.positions()}:
            out['failures'].append({'what': 'fan does not reach every cell', 'area': [h, w, oy, ox], 'origin': [y0, x0],
                                    'missing': sorted({(p.y, p.x) for p in area.positions()} - covered)[:10]})
        # the cached variant after unrelated queries
        rt.cached_compute_rays_fancy(Position(oy, ox), area)
        if rt.cached_compute_rays_fancy(origin, area) != rays:
            out['failures'].append({'what': 'cache changed a result', 'area': [h, w, oy, ox], 'origin': [y0, x0]})
        # compute_rays (1 degree fan), sampled
        if (y0 + x0) % 3 == 0:
            for ray in rt.compute_rays(origin, area)[::15]:
                out['evaluations'] += 1
                cells = [(p.y, p.x) for p in ray]
                if not cells or cells[0] != (origin.y, origin.x) or len(set(cells)) != len(cells) or any(
                        not area.contains(p) for p in ray):
                    out['failures'].append({'what': 'compute_rays ray malformed', 'area': [h, w, oy, ox], 'origin': [y0, x0]})
    out['nontrivial'] = len(out['nontrivial'])
    return out


def _open_view_case(args):
    """an unobstructed ray-traced view shows everything (agent's own cell included), also for large views"""
    h, w = args
    from gym_gridverse.envs import visibility_functions as vf
    from gym_gridverse.geometry import Position
    from gym_gridverse.grid import Grid
    from gym_gridverse.grid_object import Floor
    out = {'evaluations': 0, 'nontrivial': 0, 'failures': []}
    g = Grid([[Floor() for _ in range(w)] for _ in range(h)])
    for pos in {Position(h - 1, w // 2), Position(0, 0), Position(h // 2, w // 2)}:
        import warnings
        with warnings.catch_warnings():
            warnings.simplefilter('ignore')
            v = vf.raytracing(g, pos)
        out['evaluations'] += 1
        if not v.all():
            out['failures'].append({'what': 'unobstructed ray-traced view hides a cell', 'shape': [h, w],
                                    'origin': [pos.y, pos.x], 'hidden': int((~v).sum()),
                                    'own_cell_visible': bool(v[pos.y, pos.x])})
    return out


def rays(tier, seed):
    n = 7 if tier == 'quick' else 10
    cases = [(h, w, y, x) for h in range(1, n + 1) for w in range(1, n + 1) for y in range(h) for x in range(w)]
    if tier == 'thorough':
        cases += [(13, 13, y, x) for y in range(13) for x in range(13)] + [(7, 13, y, x) for y in range(7) for x in range(13)]
    big = [(h, w) for h in range(1, 18 if tier == 'quick' else 24) for w in range(1, 18 if tier == 'quick' else 24)
           if h > n or w > n] + [(7, 31), (31, 7), (3, 63), (31, 31)]
    with mp.Pool(16) as pool:
        res = pool.map(_ray_case, cases, chunksize=8)
        res += pool.map(_open_view_case, big, chunksize=4)
    return {
        'what': 'compute_ray / compute_rays_fancy / compute_rays contract (C19); unobstructed ray-traced views up to '
                '17x17 (thorough 23x23) and 7x31, 31x7, 3x63, 31x31 show every cell',
        'bound': f'all areas with height,width <= {n}' + (' plus 13x13 and 7x13' if tier == 'thorough' else '')
                 + ', two translations, every origin, every fan ray; cache order variations',
        'evaluations': sum(r['evaluations'] for r in res),
        'distinct_nontrivial': sum(r['nontrivial'] for r in res),
        'failures': [f for r in res for f in r['failures']][:5],
        'samples': [{'area_h_w_origin': list(cases[len(cases) // 2]), 'rays': res[len(cases) // 2]['evaluations']}],
        'exhaustive': True,
    }


def _occ_case(args):
    fn_name, h, w, bits = args
    from gym_gridverse.envs import visibility_functions as vf
    from gym_gridverse.geometry import Position
    from gym_gridverse.grid import Grid
    from gym_gridverse.grid_object import Floor, Wall
    fn = getattr(vf, fn_name)
    out = {'evaluations': 0, 'nontrivial': 0, 'failures': []}
    def grid_of(b):
        return Grid([[Wall() if (b >> (y * w + x)) & 1 else Floor() for x in range(w)] for y in range(h)])
    pos = Position(h - 1, w // 2)
    base = fn(grid_of(bits), pos)
    out['evaluations'] += 1
    if not base[pos.y, pos.x]:
        out['failures'].append({'what': 'own cell not visible', 'fn': fn_name, 'shape': [h, w], 'walls': bits})
    if base.sum() > 1:
        out['nontrivial'] = 1
    # connectivity: every visible cell is linked to the agent through adjacent transparent visible cells
    seen = {(pos.y, pos.x)}
    stack = [(pos.y, pos.x)]
    while stack:
        y, x = stack.pop()
        if (bits >> (y * w + x)) & 1 and (y, x) != (pos.y, pos.x):
            continue  # opaque cells are seen but do not carry the chain on
        for dy in (-1, 0, 1):
            for dx in (-1, 0, 1):
                ny, nx = y + dy, x + dx
                if 0 <= ny < h and 0 <= nx < w and (ny, nx) not in seen and base[ny, nx]:
                    seen.add((ny, nx))
                    stack.append((ny, nx))
    vis = {(y, x) for y in range(h) for x in range(w) if base[y, x]}
    if vis - seen:
        out['failures'].append({'what': 'visible cell not linked to the agent', 'fn': fn_name, 'shape': [h, w],
                                'walls': bits, 'cells': sorted(vis - seen)[:5]})
    for k in range(h * w):
        if not (bits >> k) & 1:
            continue
        y, x = divmod(k, w)
        if not base[y, x]:
            # hidden opaque cell: replacing it must not change the mask (non-interference)
            other = fn(grid_of(bits & ~(1 << k)), pos)
            out['evaluations'] += 1
            if (other != base).any():
                out['failures'].append({'what': 'hidden cell influences the view', 'fn': fn_name, 'shape': [h, w],
                                        'walls': bits, 'cell': [y, x]})
            continue
        # visible opaque cell made transparent: nothing that was visible may become hidden
        more = fn(grid_of(bits & ~(1 << k)), pos)
        out['evaluations'] += 1
        if (base & ~more).any():
            out['failures'].append({'what': 'making a visible opaque cell transparent hid a cell', 'fn': fn_name,
                                    'shape': [h, w], 'walls': bits, 'cell': [y, x]})
    # the stochastic view can show exactly the cells the deterministic view shows (same rays, same counts):
    # with every random() tiny but positive a cell is shown iff its probability is positive
    if fn_name == 'raytracing':
        class Tiny:
            def random(self, shape=None):
                import numpy as np
                return np.full(shape, 1e-12)
        sv = vf.stochastic_raytracing(grid_of(bits), pos, rng=Tiny())
        out['evaluations'] += 1
        if (sv != base).any():
            out['failures'].append({'what': 'stochastic view can show a cell the deterministic view cannot (or misses one)',
                                    'shape': [h, w], 'walls': bits})
    out['failures'] = out['failures'][:2]
    return out


def _occ_large(args):
    h, w, seed = args
    import numpy as np
    from gym_gridverse.envs import visibility_functions as vf
    from gym_gridverse.geometry import Position
    from gym_gridverse.grid import Grid
    from gym_gridverse.grid_object import Floor, Wall
    r = random.Random(seed)
    out = {'evaluations': 0, 'nontrivial': 0, 'failures': []}
    class Tiny:
        def random(self, shape=None):
            return np.full(shape, 1e-12)
    for _ in range(20):
        dens = r.choice([0.05, 0.1, 0.2, 0.35])
        cells = [[Wall() if r.random() < dens else Floor() for _ in range(w)] for _ in range(h)]
        pos = Position(h - 1, w // 2)
        cells[pos.y][pos.x] = Floor()
        g = Grid(cells)
        det = vf.raytracing(g, pos)
        sto = vf.stochastic_raytracing(g, pos, rng=Tiny())
        out['evaluations'] += 1
        out['nontrivial'] += int(det.sum() > 1)
        if (det != sto).any() and len(out['failures']) < 1:
            out['failures'].append({'what': 'stochastic view can show a cell the deterministic view cannot (or misses one)',
                                    'shape': [h, w], 'walls': [[int(isinstance(c, Wall)) for c in row] for row in cells]})
        if not det[pos.y, pos.x]:
            out['failures'].append({'what': 'own cell not visible', 'fn': 'raytracing', 'shape': [h, w]})
        # larger views: non-interference and monotonicity of both deterministic functions on this layout
        for fname in ('raytracing', 'partially_occluded'):
            fn = getattr(vf, fname)
            base = fn(g, pos)
            for y in range(h):
                for x in range(w):
                    if (y, x) == (pos.y, pos.x):
                        continue
                    was_wall = isinstance(cells[y][x], Wall)
                    if base[y, x] and not was_wall:
                        continue           # a visible transparent cell: neither clause speaks about it
                    cells[y][x] = Floor() if was_wall else Wall()
                    other = fn(Grid(cells), pos)
                    cells[y][x] = Wall() if was_wall else Floor()
                    out['evaluations'] += 1
                    if not base[y, x] and (other != base).any() and not any(
                            f['what'].startswith('hidden cell') for f in out['failures']):
                        out['failures'].append({'what': 'hidden cell content changed the view (larger view)', 'fn': fname,
                                                'shape': [h, w], 'cell': [y, x],
                                                'walls': [[int(isinstance(c, Wall)) for c in row] for row in cells]})
                    if base[y, x] and was_wall and (base & ~other).any() and not any(
                            f['what'].startswith('making a visible') for f in out['failures']):
                        out['failures'].append({'what': 'making a visible opaque cell transparent hid a cell (larger view)',
                                                'fn': fname, 'shape': [h, w], 'cell': [y, x],
                                                'walls': [[int(isinstance(c, Wall)) for c in row] for row in cells]})
    return out


def occlusion(tier, seed):
    shapes = [(3, 3), (2, 5), (3, 4), (4, 3), (3, 5)] if tier == 'quick' else [(3, 3), (2, 5), (3, 4), (4, 3), (3, 5), (4, 4), (2, 7), (5, 3)]
    cases = [(fn, h, w, b) for fn in ('partially_occluded', 'raytracing') for (h, w) in shapes for b in range(1 << (h * w))]
    large = [(h, w, seed * 1000 + k) for (h, w) in ((7, 7), (5, 9), (9, 5), (7, 4)) for k in range(8 if tier == 'quick' else 60)]
    with mp.Pool(16) as pool:
        res = pool.map(_occ_case, cases, chunksize=256)
        res += pool.map(_occ_large, large, chunksize=2)
    return {
        'what': 'occlusion is monotone, non-interfering and chain-connected (C06 d), partially_occluded and raytracing; '
                'stochastic view support = deterministic view',
        'bound': f'all wall/floor patterns of views {shapes} x every opaque cell flipped; plus {len(large) * 20} random '
                 'layouts of 7x7 / 5x9 / 9x5 / 7x4 views for the stochastic-vs-deterministic comparison and, with every hidden '
                 'or visible-opaque cell flipped, for non-interference and monotonicity of both deterministic functions',
        'evaluations': sum(r['evaluations'] for r in res),
        'distinct_nontrivial': sum(r['nontrivial'] for r in res),
        'failures': [f for r in res for f in r['failures']][:5],
        'samples': [{'fn': cases[7][0], 'shape': cases[7][1:3], 'walls_bitmask': cases[7][3]}],
        'exhaustive': True,
    }


def _dij_case(args):
    h, w, bits = args
    from collections import deque
    from gym_gridverse.envs.reward_functions import dijkstra
    layout = tuple(tuple(bool((bits >> (y * w + x)) & 1) for x in range(w)) for y in range(h))
    out = {'evaluations': 0, 'nontrivial': 0, 'failures': []}
    for sy in range(h):
        for sx in range(w):
            out['evaluations'] += 1
            try:
                d = dijkstra(layout, (sy, sx))
            except Exception as e:
                if len(out['failures']) < 2:
                    out['failures'].append({'what': 'dijkstra raised', 'exception': repr(e)[:200], 'layout': layout,
                                            'source': [sy, sx]})
                continue
            ref = {(sy, sx): 0}
            q = deque([(sy, sx)])
            while q:
                y, x = q.popleft()
                for dy, dx in ((-1, 0), (1, 0), (0, -1), (0, 1)):
                    ny, nx = y + dy, x + dx
                    if 0 <= ny < h and 0 <= nx < w and layout[ny][nx] and (ny, nx) not in ref:
                        ref[(ny, nx)] = ref[(y, x)] + 1
                        q.append((ny, nx))
            ok = d.shape == (h, w) and all(
                (d[y, x] == ref[(y, x)]) if (y, x) in ref else (d[y, x] == float('inf'))
                for y in range(h) for x in range(w))
            if len(ref) > 1:
                out['nontrivial'] += 1
            if not ok and len(out['failures']) < 2:
                out['failures'].append({'what': 'dijkstra differs from BFS distance', 'layout': layout, 'source': [sy, sx]})
    return out


def dijkstra_bfs(tier, seed):
    shapes = [(1, 4), (2, 3), (3, 3), (3, 4), (4, 4)]
    if tier != 'quick':
        shapes += [(1, 9), (2, 7), (3, 5), (5, 3), (4, 5)]
    cases = [(h, w, b) for (h, w) in shapes for b in range(1 << (h * w))]
    with mp.Pool(16) as pool:
        res = pool.map(_dij_case, cases, chunksize=128)
    return {
        'what': 'reward_functions.dijkstra returns breadth-first distances (inf where unreachable), any cache history',
        'bound': f'all layouts of shapes {shapes} x every source',
        'evaluations': sum(r['evaluations'] for r in res),
        'distinct_nontrivial': sum(r['nontrivial'] for r in res),
        'failures': [f for r in res for f in r['failures']][:5],
        'samples': [{'shape': list(cases[5][:2]), 'free_cells_bitmask': cases[5][2]}],
        'exhaustive': True,
    }


ITEMS = {'rays': rays, 'occlusion': occlusion, 'dijkstra': dijkstra_bfs}


def main():
    native.setup_path()
    item, tier, seed = sys.argv[1], sys.argv[2], int(sys.argv[3])
    res = ITEMS[item](tier, seed)
    print(json.dumps(res))



# ------------------------------------------------------------------------------------------------
# C15 / C16: representations.  The per-object encoders range over a finite domain (subsets of the
# registered classes x colour subsets x the flat objects of the space), which is enumerated
# completely; the array level (grids of any shape) is sampled on small shapes.
REPRESENTABLE = ['NoneGridObject', 'Floor', 'Wall', 'Exit', 'Door', 'Key', 'MovingObstacle', 'Telepod', 'Beacon']
REAL_COLORS = ['RED', 'GREEN', 'BLUE', 'YELLOW']


def _flat_objects(class_names, color_names):
    from gym_gridverse import grid_object as go
    out = []
    for cn in class_names:
        cls = getattr(go, cn)
        if cn == 'Door':
            out += [cls(s, go.Color[c]) for s in go.Door.Status for c in color_names]
        elif cn in ('Exit', 'Key', 'Telepod', 'Beacon'):
            out += [cls(go.Color[c]) for c in color_names]
        elif cn == 'Box':
            out += [cls(go.Floor())]
        else:
            out.append(cls())
    return out


def _rep_case(args):
    kind, tmask, cmask, seed = args
    import numpy as np
    from gym_gridverse import grid_object as go
    from gym_gridverse.agent import Agent
    from gym_gridverse.geometry import Orientation, Position, Shape
    from gym_gridverse.grid import Grid
    from gym_gridverse.gym import outer_space_to_gym_space
    from gym_gridverse.observation import Observation
    from gym_gridverse.representations.observation_representations import make_observation_representation
    from gym_gridverse.representations.state_representations import make_state_representation
    from gym_gridverse.spaces import ObservationSpace, StateSpace
    from gym_gridverse.state import State
    out = {'evaluations': 0, 'nontrivial': 0, 'failures': [], 'orientation_pairs': 0, 'orientation_collisions': 0}
    pool = REPRESENTABLE if kind == 'state' else REPRESENTABLE + ['Hidden', 'Box']
    tnames = [n for k, n in enumerate(pool) if (tmask >> k) & 1]
    cnames = [n for k, n in enumerate(REAL_COLORS) if (cmask >> k) & 1]
    if not tnames:
        return out
    types = [getattr(go, n) for n in tnames]
    colors = [go.Color[n] for n in cnames]
    shape = Shape(3, 5) if kind == 'observation' else Shape(3, 4)
    space = (StateSpace if kind == 'state' else ObservationSpace)(shape, types, colors)
    make = make_state_representation if kind == 'state' else make_observation_representation
    extra = 'NoneGridObject' if kind == 'state' else None
    member_colors = sorted(set(cnames) | {'NONE'})
    grid_classes = sorted(set(tnames) | ({'Hidden'} if kind == 'observation' else set()))
    item_classes = sorted(set(tnames) | {'NoneGridObject'})
    grid_objs = _flat_objects(grid_classes, member_colors)
    item_objs = _flat_objects(item_classes, member_colors)
    r = random.Random(f'{seed}:{kind}:{tmask}:{cmask}')

    C15_WHAT = ('object encoding outside the declared space', 'array outside its declared space',
                'array outside the advertised gym space', 'gym space conversion failed',
                'convert and space have different keys', 'representation refuses a representable space',
                'sampled member rejected by the space')

    def fail(what, **kw):
        if len(out['failures']) < 2:
            out['failures'].append(dict(what=what, prop='C15' if what in C15_WHAT else 'C16', kind=kind, types=tnames,
                                        colors=cnames, **kw))

    for name in ('default', 'no-overlap', 'compact'):
        try:
            rep = make(name, space)
        except ValueError:
            fail('representation refuses a representable space', name=name)
            continue
        gor = rep.representations['grid'].grid_object_representation
        sp = gor.space
        seen = {}
        chans = [set(), set(), set()]
        for o in grid_objs + item_objs:
            v = gor.convert(o)
            out['evaluations'] += 1
            if not sp.contains(np.asarray(v)):
                fail('object encoding outside the declared space', name=name, obj=repr(o), value=[int(x) for x in v],
                     upper=[int(x) for x in sp.upper_bound])
            key = tuple(int(x) for x in v)
            if key in seen and not (seen[key] == o):
                fail('two different objects share an encoding', name=name, a=repr(seen[key]), b=repr(o))
            for k2, o2 in seen.items():
                if o2 == o and k2 != key:
                    fail('equal objects have different encodings', name=name, a=repr(o2), b=repr(o))
            seen[key] = o
            for c in range(3):
                chans[c].add(key[c])
            if name == 'default' and key != (o.type_index(), o.state_index, o.color.value):
                fail('default encoding is not the (type, status, colour) index triple', obj=repr(o), value=list(key))
        if name in ('no-overlap', 'compact'):
            if (chans[0] & chans[1]) or (chans[0] & chans[2]) or (chans[1] & chans[2]):
                fail('channels share a value', name=name)
        if name == 'compact':
            # every value the space allows is used by some object of the space (no gaps, consecutive from zero)
            allv = set()
            every = _flat_objects(sorted(set(grid_classes) | set(item_classes)), member_colors)
            for o in every:
                allv.update(int(x) for x in gor.convert(o))
            if allv != set(range(len(allv))):
                fail('compact encoding has gaps or does not start at zero', used=sorted(allv))
        # array level on one sampled member state/observation (positional, marker, containment, gym space)
        h, w = shape.height, shape.width
        cells = [[r.choice(grid_objs) for _ in range(w)] for _ in range(h)]
        pos = Position(h - 1, w // 2) if kind == 'observation' else Position(r.randrange(h), r.randrange(w))
        ori = r.choice(list(Orientation))
        item = r.choice(item_objs)
        mk = State if kind == 'state' else Observation
        x1 = mk(Grid([list(row) for row in cells]), Agent(pos, ori, item))
        if not space.contains(x1):
            fail('sampled member rejected by the space', name=name)
            continue
        d = rep.convert(x1)
        out['nontrivial'] += 1
        if set(d) != set(rep.space):
            fail('convert and space have different keys', name=name)
        for k_, arr in d.items():
            if not rep.space[k_].contains(arr):
                fail('array outside its declared space', name=name, key=k_)
        try:
            if not outer_space_to_gym_space(rep.space).contains(d):
                fail('array outside the advertised gym space', name=name)
        except Exception as e:
            fail('gym space conversion failed', name=name, error=str(e)[:100])
        g = d['grid']
        if g.shape != (h, w, 3) or any((g[y, x] != gor.convert(cells[y][x])).any() for y in range(h) for x in range(w)):
            fail('grid entry is not the encoding of the object in that cell', name=name)
        m = d['agent_id_grid']
        if m.shape != (h, w) or m[pos.y, pos.x] != 1 or m.sum() != 1:
            fail('agent marker wrong', name=name)
        if (d['item'] != gor.convert(item)).any():
            fail('item encoding wrong', name=name)
        # injectivity at the state / observation level: change one thing at a time
        variants = []
        y_, x_ = r.randrange(h), r.randrange(w)
        other = r.choice(grid_objs)
        c2 = [list(row) for row in cells]
        c2[y_][x_] = other
        variants.append(('cell', mk(Grid(c2), Agent(pos, ori, item))))
        variants.append(('item', mk(Grid([list(row) for row in cells]), Agent(pos, ori, r.choice(item_objs)))))
        if kind == 'state':
            variants.append(('position', mk(Grid([list(row) for row in cells]),
                                            Agent(Position(r.randrange(h), r.randrange(w)), ori, item))))
        for what, x2 in variants:
            d2 = rep.convert(x2)
            same_repr = all((d[k_] == d2[k_]).all() for k_ in d)
            same_val = (x1.grid == x2.grid) and (x1.agent == x2.agent)
            out['evaluations'] += 1
            if same_repr != same_val:
                fail('representation equality differs from value equality', name=name, varied=what)
            if same_val and hash(x1.grid) != hash(x2.grid):
                fail('equal grids hash differently', name=name)
        # orientation (state: encoded in `agent`; observation: not encoded at all -> known finding D8)
        o2 = r.choice([o_ for o_ in Orientation if o_ is not ori])
        x3 = mk(Grid([list(row) for row in cells]), Agent(pos, o2, item))
        d3 = rep.convert(x3)
        out['orientation_pairs'] += 1
        if all((d[k_] == d3[k_]).all() for k_ in d):
            out['orientation_collisions'] += 1
    return out


def representations(tier, seed):
    cases = []
    for kind, nbits in (('state', len(REPRESENTABLE)), ('observation', len(REPRESENTABLE) + 2)):
        # complete in both tiers (about 25 s on 16 cores): every subset of classes x every subset of colours
        for tm in range(1, 1 << nbits):
            for cm in range(16):
                cases.append((kind, tm, cm, seed))
    with mp.Pool(16) as pool:
        res = pool.map(_rep_case, cases, chunksize=64)
    pairs = sum(r['orientation_pairs'] for r in res)
    coll = sum(r['orientation_collisions'] for r in res)
    failures = [f for r in res for f in r['failures']][:5]
    if coll:
        failures.append({'what': 'observation-orientation-not-encoded', 'prop': 'C16', 'pairs': pairs, 'collisions': coll,
                         'detail': 'two member observations that differ only in agent orientation have equal representations'})
    return {
        'what': 'representations: per-object encoders of every space (enumerated), array level sampled (C15, C16)',
        'bound': ('every non-empty subset of the 9 state-representable classes x every colour subset (state); '
                  + 'every subset of the 11 classes x every colour subset '
                  '(observation); every flat object of each space; one sampled member per space and representation on a '
                  '3x4 / 3x5 grid with single-change variants'),
        'evaluations': sum(r['evaluations'] for r in res),
        'distinct_nontrivial': sum(r['nontrivial'] for r in res),
        'failures': failures,
        'samples': [{'kind': cases[len(cases) // 3][0], 'type_mask': cases[len(cases) // 3][1], 'colour_mask': cases[len(cases) // 3][2]}],
        'exhaustive': True,
    }


ITEMS['representations'] = representations



# ------------------------------------------------------------------------------------------------
# Trajectories of the shipped configurations (history-level claims of C01 C02 C04 C08 C09 C12 C15 C20).
# The per-call contracts are proved; the induction over histories is stated, and this enumeration
# exercises it on the real environments built by the real YAML factory (files read by miniyaml).
def _shipped_configs():
    import glob
    top = sorted(glob.glob(os.path.join(native.REPO, 'yaml', '*.yaml')))
    reg = sorted(glob.glob(os.path.join(native.REPO, 'gym_gridverse', 'registered_envs', '*.yaml')))
    if not top:
        top = reg      # scratch copies of the package only carry the packaged configurations
    return top, reg


def _ms(state):
    from gym_gridverse.grid_object import Box, Floor, NoneGridObject
    def key(o):
        return type(o).__name__ + ':' + str(o.state_index) + ':' + str(o.color) + (
            ':' + key(o.content) if isinstance(o, Box) else '')
    objs = [state.grid[p] for p in state.grid.area.positions()] + [state.agent.grid_object]
    return sorted(key(o) for o in objs if not isinstance(o, (Floor, NoneGridObject)))


def _traj_case(args):
    """a trajectory that makes the library raise is a reported failure (closure / totality), not a harness crash"""
    try:
        return _traj_case_inner(args)
    except Exception as e:
        import traceback
        return {'evaluations': 1, 'nontrivial': 0, 'failures': [{
            'what': 'the environment raised on a trajectory of a shipped configuration', 'prop': None,
            'config': os.path.basename(args[0]), 'seed': args[1],
            'error': f'{type(e).__name__}: {e}'[:200], 'where': traceback.format_exc()[-600:]}]}


def _traj_case_inner(args):
    path, seed, steps = args
    import numpy as np
    import miniyaml
    from gym_gridverse.action import Action
    from gym_gridverse.envs.yaml.factory import factory_env_from_data
    from gym_gridverse.grid_object import Box, Door, Exit, Floor, MovingObstacle
    from gym_gridverse.gym import GymEnvironment, GymStateWrapper
    from gym_gridverse.outer_env import OuterEnv
    from gym_gridverse.representations.observation_representations import make_observation_representation
    from gym_gridverse.representations.state_representations import make_state_representation
    import gym_gridverse.rng as gvr
    import random as pyrandom
    out = {'evaluations': 0, 'nontrivial': 0, 'failures': []}
    name = os.path.basename(path)

    def fail(prop, what, **kw):
        if sum(1 for f in out['failures'] if f['what'] == what) == 0:
            out['failures'].append(dict(what=what, prop=prop, config=name, seed=seed, **kw))

    data = miniyaml.loads(open(path).read())
    import copy
    data0 = copy.deepcopy(data)
    envs = [factory_env_from_data(copy.deepcopy(data)) for _ in range(4)]
    if data != data0:
        fail('C02', 'building an environment modified its configuration data')
    a, b, c, other = envs
    r = pyrandom.Random(f'{seed}:{name}')
    actions = a.action_space.actions
    gvr.reset_gv_rng(4242)
    snap = (repr(gvr.get_gv_rng().bit_generator.state), repr(np.random.get_state())[:3000], repr(pyrandom.getstate())[:500])
    for e in (a, b, c):
        e.set_seed(seed)
    other.set_seed(seed + 1)
    reps = {n: (make_state_representation(n, a.state_space) if a.state_space.can_be_represented else None,
                make_observation_representation(n, a.observation_space)) for n in ('default', 'no-overlap', 'compact')}
    # A: stateful; B: functional threading by hand; C: stateful, interleaved with another environment
    a.reset()
    sb = b.functional_reset()
    c.reset()
    other.reset()
    prev = None
    for t in range(steps):
        reads = r.choice([0, 1, 1, 2, 3])
        st = a.state
        out['evaluations'] += 1
        if not (st == sb):
            fail('C04', 'stateful and functional trajectories diverge (state)', step=t)
            break
        if not (c.state == st):
            fail('C02', 'same seed, interleaved with another environment: different state', step=t)
            break
        # closure and invariants along the trajectory
        if not a.state_space.contains(st):
            fail('C01', 'reachable state outside the declared state space', step=t)
        cell = st.grid[st.agent.position]
        if not st.grid.area.contains(st.agent.position) or cell.blocks_movement:
            fail('C08', 'agent outside the grid or on a movement-blocking cell', step=t, cell=repr(cell))
        if reads:
            oa = [a.observation for _ in range(reads)]
            ob = b.functional_observation(sb)
            oc = c.observation
            if any(x is not oa[0] for x in oa):
                fail('C04', 'repeated reads return different observation objects', step=t)
            if not (oa[0].grid == ob.grid and oa[0].agent == ob.agent):
                fail('C04', 'stateful and functional trajectories diverge (observation)', step=t)
            if not (oc.grid == oa[0].grid and oc.agent == oa[0].agent):
                fail('C02', 'same seed, interleaved: different observation', step=t)
            if not a.observation_space.contains(oa[0]):
                fail('C01', 'observation outside the declared observation space', step=t)
            for n, (srep, orep) in reps.items():
                d = orep.convert(oa[0])
                if any(not orep.space[k].contains(v) for k, v in d.items()):
                    fail('C15', 'observation representation outside its space on a trajectory', step=t, representation=n)
                if srep is not None:
                    d = srep.convert(st)
                    if any(not srep.space[k].contains(v) for k, v in d.items()):
                        fail('C15', 'state representation outside its space on a trajectory', step=t, representation=n)
        # an unrelated environment runs in between (must not matter)
        other.step(r.choice(actions))
        if r.random() < 0.1:
            other.reset()
        act = r.choice(actions)
        before = _ms(st)
        opened_box = act is Action.ACTUATE and st.grid.area.contains(st.agent.front()) and isinstance(st.grid[st.agent.front()], Box)
        door_before = {(p.y, p.x): st.grid[p].state for p in st.grid.area.positions() if isinstance(st.grid[p], Door)}
        held_before = st.agent.grid_object
        ra, da = a.step(act)
        sb, rb, db = b.functional_step(sb, act)
        rc, dc = c.step(act)
        if (ra, da) != (rb, db):
            fail('C04', 'stateful and functional trajectories diverge (reward/done)', step=t)
        if (ra, da) != (rc, dc):
            fail('C02', 'same seed, interleaved: different reward/done', step=t)
        if not (isinstance(ra, float) and np.isfinite(ra) and isinstance(da, (bool, np.bool_))):
            fail('C01', 'reward is not a finite float or done is not a bool', step=t, reward=repr(ra), done=repr(da))
        ns = a.state
        after = _ms(ns)
        if not opened_box:
            # door status is part of the object: compare without it
            strip = lambda ms: sorted(k.split(':')[0] + ':' + k.split(':', 2)[2] if k.startswith('Door:') else k for k in ms)
            if strip(before) != strip(after):
                fail('C09', 'multiset of non-floor objects changed along a trajectory', step=t, action=str(act))
        for p in ns.grid.area.positions():
            o = ns.grid[p]
            if isinstance(o, Door) and (p.y, p.x) in door_before and door_before[(p.y, p.x)] is not o.state:
                ok = act is Action.ACTUATE and st.agent.front() == p and o.state is Door.Status.OPEN
                if door_before[(p.y, p.x)] is Door.Status.LOCKED:
                    from gym_gridverse.grid_object import Key
                    ok = ok and isinstance(held_before, Key) and held_before.color == o.color
                if not ok:
                    fail('C10', 'door status changed without a faced ACTUATE (with the matching key)', step=t)
        on_exit = isinstance(ns.grid[ns.agent.position], Exit)
        if 'reach_exit' in str(data0.get('terminating_function')) and data0['terminating_function'].get('name') == 'reach_exit':
            if bool(da) != on_exit:
                fail('C12', 'exit termination does not coincide with standing on an exit', step=t)
        out['nontrivial'] += int(not (ns == st))
        if da or r.random() < 0.05:
            a.reset()
            sb = b.functional_reset()
            c.reset()
    now = (repr(gvr.get_gv_rng().bit_generator.state), repr(np.random.get_state())[:3000], repr(pyrandom.getstate())[:500])
    if now[0] != snap[0] or now[1] != snap[1]:
        fail('C02', 'a seeded environment changed a global random source')
    # gym layer (C20): registered ids wrap the default observation representation
    try:
        inner = factory_env_from_data(copy.deepcopy(data0))
        inner.set_seed(seed)
        outer = OuterEnv(inner, observation_representation=make_observation_representation('default', inner.observation_space),
                         state_representation=(make_state_representation('default', inner.state_space)
                                               if inner.state_space.can_be_represented else None))
        genv = GymEnvironment(outer)
        o = genv.reset()
        for t in range(steps):
            i = r.randrange(genv.action_space.n)
            o, rew, done, info = genv.step(i)
            out['evaluations'] += 1
            deterministic = data0['observation_function'].get('name') != 'stochastic_raytracing'
            want = outer.observation_representation.convert(
                inner.functional_observation(inner.state) if deterministic else inner.observation)
            if any(not np.array_equal(o[k], want[k]) for k in want):
                fail('C20', 'gym step did not return the observation of the post-step state', step=t)
            if not genv.observation_space.contains(o):
                fail('C20', 'gym observation outside the advertised space', step=t)
            if done:
                o = genv.reset()
        if outer.state_representation is not None:
            w = GymStateWrapper(genv)
            s0 = w.reset()
            s1, rew, done, info = w.step(0)
            want = outer.state_representation.convert(inner.state)
            if any(not np.array_equal(s1[k], want[k]) for k in want) or 'observation' not in info:
                fail('C20', 'state wrapper did not return the post-step state / observation in info')
            if not w.observation_space.contains(s1):
                fail('C20', 'wrapper state outside the advertised space')
    except Exception as e:
        fail('C20', 'gym adapter raised on a shipped configuration', error=f'{type(e).__name__}: {e}'[:200])
    return out


def _traj_digest(path, seed, steps):
    """canonical dump of a seeded trajectory (states, observations, rewards, done flags) under fixed pseudo-random actions"""
    import hashlib
    import random as pyrandom
    import miniyaml
    from gym_gridverse.envs.yaml.factory import factory_env_from_data
    env = factory_env_from_data(miniyaml.loads(open(path).read()))
    env.set_seed(seed)
    r = pyrandom.Random(f'{seed}:digest')
    h = hashlib.sha256()
    env.reset()
    for t in range(steps):
        st, ob = env.state, env.observation
        h.update(repr((st.grid, st.agent.position, st.agent.orientation, st.agent.grid_object,
                       ob.grid, ob.agent.grid_object)).encode())
        reward, done = env.step(r.choice(env.action_space.actions))
        h.update(repr((reward, done)).encode())
        if done:
            env.reset()
    return h.hexdigest()


def _hashseed_case(args):
    """the same configuration and seed in fresh interpreter processes with different PYTHONHASHSEED values"""
    import subprocess
    path, seed, steps, hashseeds = args
    digests = {}
    for hs in hashseeds:
        env = dict(os.environ, PYTHONHASHSEED=str(hs), PYVC_REPO=native.REPO)
        p = subprocess.run([sys.executable, os.path.abspath(__file__), 'digest', path, str(seed), str(steps)],
                           capture_output=True, text=True, env=env, timeout=600)
        lines = [l for l in p.stdout.splitlines() if l.startswith('DIGEST ')]
        digests[hs] = lines[-1] if lines else 'ERR ' + p.stderr[-300:]
    out = {'evaluations': len(hashseeds), 'nontrivial': 1, 'failures': []}
    if any(v.startswith('ERR') for v in digests.values()):
        out['failures'].append({'what': 'trajectory digest could not be computed in a fresh process', 'prop': 'C02',
                                'config': os.path.basename(path), 'seed': seed, 'error': [v for v in digests.values() if v.startswith('ERR')][0]})
    elif len(set(digests.values())) != 1:
        out['failures'].append({'what': 'same configuration and seed, different PYTHONHASHSEED: different trajectory',
                                'prop': 'C02', 'config': os.path.basename(path), 'seed': seed, 'steps': steps,
                                'hashseeds': {str(k): v for k, v in digests.items()}})
    return out


def trajectories(tier, seed):
    top, reg = _shipped_configs()
    failures = []
    for f in top:
        twin = os.path.join(native.REPO, 'gym_gridverse', 'registered_envs', os.path.basename(f))
        if os.path.exists(twin) and open(f).read() != open(twin).read():
            failures.append({'what': 'packaged copy of a configuration differs', 'prop': 'C17', 'config': os.path.basename(f)})
    nseeds, steps = (3, 100) if tier == 'quick' else (12, 300)
    cases = [(f, seed * 100 + s, steps) for f in top for s in range(nseeds)]
    hs_cases = [(f, seed * 100 + 7, 40 if tier == 'quick' else 150, (1, 2, 3) if tier == 'quick' else (1, 2, 3, 4, 5, 6))
                for f in top]
    with mp.Pool(16) as pool:
        res = pool.map(_traj_case, cases, chunksize=1)
        res += pool.map(_hashseed_case, hs_cases, chunksize=1)
    failures += [f for r in res for f in r['failures']]
    return {
        'what': 'trajectories of every shipped configuration (built by the real YAML factory): stateful = functional, '
                'same seed interleaved = same trajectory, same seed in fresh processes with different PYTHONHASHSEED = '
                'same trajectory, global generators untouched, closure, kinematic invariant, '
                'conservation, door rule, exit termination, representations inside their spaces, gym adapter',
        'bound': f'{len(top)} configurations x {nseeds} seeds x {steps} random steps with random read patterns and resets',
        'evaluations': sum(r['evaluations'] for r in res),
        'distinct_nontrivial': sum(r['nontrivial'] for r in res),
        'failures': failures[:8],
        'samples': [{'config': os.path.basename(cases[3][0]), 'seed': cases[3][1], 'steps': steps}],
        'exhaustive': False,
    }


ITEMS['trajectories'] = trajectories


# ------------------------------------------------------------------------------------------------
# Every short history of public calls on the stateful layers (C02 C04 C20), against a reference kept with the
# functional interface.  The environment uses stochastic components everywhere (random reset, moving
# obstacles, stochastic ray tracing), so any extra, missing or misplaced draw shows as a different value.
def _hist_parts(variant=0):
    from functools import partial
    from gym_gridverse.action import Action
    from gym_gridverse.envs import observation_functions as of, reset_functions as rf, reward_functions as rw
    from gym_gridverse.envs import terminating_functions as tf, transition_functions as tr
    from gym_gridverse.envs.gridworld import GridWorld
    from gym_gridverse.geometry import Shape
    from gym_gridverse.grid_object import Color, Exit, Floor, MovingObstacle, Wall
    from gym_gridverse.spaces import ActionSpace, ObservationSpace, StateSpace
    types = [Floor, Wall, Exit, MovingObstacle]
    sspace = StateSpace(Shape(5, 6), types, [Color.NONE])
    aspace = ActionSpace([Action.MOVE_FORWARD, Action.TURN_LEFT, Action.TURN_RIGHT])
    ospace = ObservationSpace(Shape(3, 3), types, [Color.NONE])

    def make():
        if variant == 1:
            # a small room without obstacles: moving into a wall leaves the state equal to the one before
            return GridWorld(
                StateSpace(Shape(4, 4), types, [Color.NONE]), aspace, ospace,
                partial(rf.empty, Shape(4, 4), True, True),
                partial(tr.chain, transition_functions=[tr.move_agent, tr.turn_agent]),
                partial(of.stochastic_raytracing, area=ospace.area),
                partial(rw.living_reward, reward=-1.0),
                tf.reach_exit)
        return GridWorld(
            sspace, aspace, ospace,
            partial(rf.dynamic_obstacles, Shape(5, 6), 2, True),
            partial(tr.chain, transition_functions=[tr.move_agent, tr.turn_agent, tr.move_obstacles]),
            partial(of.stochastic_raytracing, area=ospace.area),
            partial(rw.living_reward, reward=-1.0),
            tf.reach_exit)
    return make, aspace, Action


def _obs_eq(a, b):
    return a.grid == b.grid and a.agent == b.agent


def _inner_history(ops, seed):
    """returns a description of the first disagreement between the stateful interface and the reference, or None"""
    make, aspace, Action = _hist_parts(seed % 2)
    env, ref = make(), make()
    env.set_seed(seed)
    ref.set_seed(seed)
    ref_state, ref_obs = None, None
    legal, turn, illegal = aspace.actions[0], aspace.actions[1], Action.PICK_N_DROP
    for t, op in enumerate(ops):
        where = f'op {t} ({op}) of {"".join(ops)}'
        try:
            if op == 'R':
                env.reset()
                ref_state, ref_obs = ref.functional_reset(), None
            elif op == 'Z':
                env.set_seed(seed + 17)
                ref = make()                  # a fresh environment given that seed
                ref.set_seed(seed + 17)
            elif op == 'T':
                try:
                    s = env.state
                    if ref_state is None or not (s == ref_state):
                        return f'{where}: state differs from the functional reference'
                except RuntimeError:
                    if ref_state is not None:
                        return f'{where}: state raised RuntimeError after a reset'
            elif op == 'O':
                try:
                    o = env.observation
                    if ref_state is None:
                        return f'{where}: observation available before the first reset'
                    if ref_obs is None:
                        ref_obs = ref.functional_observation(ref_state)
                    if not _obs_eq(o, ref_obs):
                        return f'{where}: observation differs from the functional reference'
                except RuntimeError:
                    if ref_state is not None:
                        return f'{where}: observation raised RuntimeError after a reset'
            elif op in ('S', 'L'):
                act = legal if op == 'S' else turn
                try:
                    r = env.step(act)
                    if ref_state is None:
                        return f'{where}: step worked before the first reset'
                    ref_state, rr, dd = ref.functional_step(ref_state, act)
                    ref_obs = None
                    if tuple(r) != (rr, dd):
                        return f'{where}: reward / done differ from the functional reference'
                except RuntimeError:
                    if ref_state is not None:
                        return f'{where}: step raised RuntimeError after a reset'
            elif op == 'I':
                try:
                    env.step(illegal)
                    return f'{where}: an action outside the action space was accepted'
                except ValueError:
                    pass                      # rejected: the reference does nothing at all
                except RuntimeError:
                    if ref_state is not None:
                        return f'{where}: RuntimeError instead of ValueError for an illegal action'
        except Exception as e:
            return f'{where}: {type(e).__name__}: {e}'[:300]
    return None


def _gym_history(ops, seed):
    from gym_gridverse.gym import GymEnvironment, GymStateWrapper
    from gym_gridverse.outer_env import OuterEnv
    from gym_gridverse.representations.observation_representations import make_observation_representation
    from gym_gridverse.representations.state_representations import make_state_representation
    import numpy as np
    make, aspace, Action = _hist_parts(seed % 2)
    inner, ref = make(), make()
    inner.set_seed(seed)
    ref.set_seed(seed)
    names = ['default', 'no-overlap', 'compact']
    si, oi = seed % 3, (seed // 3) % 3          # the environment is wrapped directly with any of the representations
    srep = make_state_representation(names[si], inner.state_space)
    orep = make_observation_representation(names[oi], inner.observation_space)
    genv = GymEnvironment(OuterEnv(inner, state_representation=srep, observation_representation=orep))
    wrap = GymStateWrapper(genv)
    ref_state, ref_obs = None, None

    def same(d, e):
        return set(d) == set(e) and all(np.array_equal(d[k], e[k]) for k in d)

    def the_obs():
        nonlocal ref_obs
        if ref_obs is None:
            ref_obs = ref.functional_observation(ref_state)
        return orep.convert(ref_obs)
    for t, op in enumerate(ops):
        where = f'op {t} ({op}) of {"".join(ops)}'
        try:
            if op == 'r':              # plain reset: returns the observation of the fresh state
                o = genv.reset()
                ref_state, ref_obs = ref.functional_reset(), None
                if not same(o, the_obs()):
                    return f'{where}: reset did not return the observation of the fresh state'
            elif op == 'R':            # wrapper reset: returns the state representation
                s = wrap.reset()
                ref_state, ref_obs = ref.functional_reset(), None
                the_obs()                  # the wrapped environment's reset reads the fresh observation
                if not same(s, srep.convert(ref_state)):
                    return f'{where}: wrapper reset did not return the fresh state'
            elif op in ('s', 'S'):
                if ref_state is None:
                    continue
                idx = (t + seed) % 3
                out = (genv if op == 's' else wrap).step(idx)
                ref_state, rr, dd = ref.functional_step(ref_state, aspace.actions[idx])
                ref_obs = None
                want_obs = the_obs()       # the gym layer reads the observation right after the step
                if (out[1], out[2]) != (rr, dd):
                    return f'{where}: reward / done differ from the inner functional step'
                if op == 's' and not same(out[0], want_obs):
                    return f'{where}: step did not return the post-step observation'
                if op == 's' and len(out[3]) != 0:
                    return f'{where}: info dictionary of a plain step is not empty'
                if op == 'S' and not same(out[0], srep.convert(ref_state)):
                    return f'{where}: wrapper step did not return the post-step state'
                if op == 'S' and not same(out[3]['observation'], want_obs):
                    return f'{where}: wrapper step passed a wrong observation through info'
            elif op in ('x', 'y'):
                # switch the observation (x) / state (y) representation to the next name; the advertised space follows
                from gym_gridverse.gym import outer_space_to_gym_space
                if op == 'x':
                    oi = (oi + 2) % 3
                    genv.set_observation_representation(names[oi])
                    orep = make_observation_representation(names[oi], inner.observation_space)
                    if genv.observation_space != outer_space_to_gym_space(orep.space):
                        return f'{where}: advertised observation space is not that of the requested representation'
                else:
                    si = (si + 2) % 3
                    genv.set_state_representation(names[si])
                    srep = make_state_representation(names[si], inner.state_space)
                    if genv.state_space != outer_space_to_gym_space(srep.space):
                        return f'{where}: advertised state space is not that of the requested representation'
            elif op == 'o':
                if ref_state is None:
                    continue
                if not same(genv.observation, the_obs()):
                    return f'{where}: observation differs from the representation of the inner observation'
            elif op == 't':
                if ref_state is None:
                    continue
                if not same(genv.state, srep.convert(ref_state)):
                    return f'{where}: state differs from the representation of the inner state'
        except Exception as e:
            return f'{where}: {type(e).__name__}: {e}'[:300]
    return None


def _hist_case(args):
    kind, ops, seed = args
    try:
        bad = (_inner_history if kind == 'inner' else _gym_history)(ops, seed)
    except Exception as e:
        bad = f'harness: {type(e).__name__}: {e}'[:300]
    return (kind, ''.join(ops), seed, bad)


def env_histories(tier, seed):
    n_inner, n_gym = (5, 5) if tier == 'quick' else (6, 6)
    cases = [('inner', ops, seed + k) for k in range(4) for ops in itertools.product('RSITOZ', repeat=n_inner) if ops[0] in 'RSO']
    # the small room (odd seeds): longer walks with turns, so that the exit is reached and left again
    cases += [('inner', ('R',) + ops, seed + 2 * k + 1) for k in range(12) for ops in itertools.product('SL', repeat=n_inner + 2)]
    cases += [('gym', ops, seed + k) for k in range(2) for ops in itertools.product('rRsSot', repeat=n_gym) if ops[0] in 'rR']
    cases += [('gym', ('r',) + ops, seed + k) for k in range(9) for ops in itertools.product('xysSot', repeat=n_gym - 1)
              if 'x' in ops or 'y' in ops]
    with mp.Pool(16) as pool:
        res = pool.map(_hist_case, cases, chunksize=64)
    failures = []
    for kind, ops, sd, bad in res:
        if bad and len(failures) < 6 and not any(f['what'] == bad.split(': ', 1)[-1][:90] for f in failures):
            prop = 'C20' if kind == 'gym' else ('C02' if 'Z' in ops and 'differs' in bad else 'C04')
            failures.append({'what': bad.split(': ', 1)[-1][:90], 'prop': None, 'layer': kind, 'history': ops, 'seed': sd,
                             'detail': bad, 'suggested_property': prop})
    return {
        'what': 'every short history of public calls on the stateful layers (inner environment; gym adapter with state '
                'wrapper) built from stochastic components, against a reference threaded through the functional interface '
                '(a re-seeded environment against a fresh environment given that seed)',
        'bound': f'all histories of length {n_inner} over reset/step/illegal step/state/observation/re-seed (inner) and of '
                 f'length {n_gym} over reset/wrapper reset/step/wrapper step/observation/state (gym), 2 seeds',
        'evaluations': len(cases),
        'distinct_nontrivial': len(cases),
        'failures': failures,
        'samples': [{'layer': cases[100][0], 'history': ''.join(cases[100][1]), 'seed': cases[100][2]}],
        'exhaustive': True,
    }


ITEMS['env_histories'] = env_histories


if __name__ == '__main__' and len(sys.argv) > 1 and sys.argv[1] == 'digest':
    native.setup_path()
    print('DIGEST ' + _traj_digest(sys.argv[2], int(sys.argv[3]), int(sys.argv[4])))
    sys.exit(0)

if __name__ == '__main__':
    main()
