"""Arithmetic models of library functions, free of z3 so that the native harness can compare them with the
library the repository really runs with (`native.py libmodels`, part of `./check --selfcheck`)."""
import ast

LINSPACE_MAX_NUM = 6


def linspace_int(start, stop, num, arith):
    """The integer samples of numpy.linspace(start, stop, num, dtype=int) for integer start/stop.

    numpy computes start + i*fl((stop-start)/div) in binary64 (div = num-1), overwrites the last sample by stop
    and takes the floor.  For div <= 5 the mathematical value floor((start*div + i*span)/div) is what comes out
    whenever |start|, |stop| < 2**40: if div divides i*span with 0 < i < div then either div divides span (the
    step is an exact integer) or div = 4 and the step is a multiple of 1/4, exact in binary; otherwise the exact
    value is at least 1/div away from every integer and the rounding error (< 2**-10 at that magnitude) cannot
    cross one."""
    if num == 0:
        return []
    if num == 1:
        return [start]
    div = num - 1
    span = arith(ast.Sub, stop, start)
    res = []
    for i in range(num):
        t = arith(ast.Add, arith(ast.Mult, start, div), arith(ast.Mult, i, span))      # numerator over div
        res.append(arith(ast.FloorDiv, t, div))
    return res


def selfcheck():
    """compare the models with the installed library on a grid of arguments; returns the number of comparisons"""
    import numpy as np
    ops = {ast.Add: lambda a, b: a + b, ast.Sub: lambda a, b: a - b, ast.Mult: lambda a, b: a * b,
           ast.FloorDiv: lambda a, b: a // b}
    arith = lambda op, a, b: ops[op](a, b)
    n = 0
    big = [2 ** 20 + 1, 2 ** 31 - 1, 2 ** 40 - 3, 3 ** 24 + 1, 10 ** 12 + 7]
    for num in range(0, LINSPACE_MAX_NUM + 1):
        for start in list(range(-6, 7)) + [-1000, 999]:
            for stop in list(range(-40, 400)) + big + [-b for b in big]:
                got = linspace_int(start, stop, num, arith)
                want = [int(v) for v in np.linspace(start, stop, num=num, dtype=int)]
                if got != want:
                    raise AssertionError(('linspace model differs from numpy', np.__version__, start, stop, num, got, want))
                n += 1
    return {'numpy': np.__version__, 'linspace_comparisons': n}
