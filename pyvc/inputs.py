"""Symbolic inputs by sort name, with model extraction to replay JSON."""
from __future__ import annotations

import z3

from .core import (EnumVal, Instance, Rng, SArr, SClass, SList, SObj, SymCallable, zint,
                   Unsupported, concretize)


class SymInput:
    def __init__(self, sort, value, extract, sizes=(), coords=()):
        self.sort = sort
        self.value = value
        self.extract = extract  # model -> json
        self.sizes = list(sizes)    # terms to minimise (>= 1 typically)
        self.coords = list(coords)  # integer terms to keep small


def mval(model, t):
    return model.eval(t, model_completion=True)


def mint(model, t):
    v = mval(model, t)
    return v.as_long()


class InputFactory:
    def __init__(self, I):
        self.I = I
        self.seq = 0
        self.mods = {}

    def mod(self, name):
        return self.I.load_module('gym_gridverse.' + name)

    def cls(self, mod, name):
        return self.mod(mod).ns[name]

    def enum_cls(self, sort):
        return {'Orientation': ('geometry', 'Orientation'), 'Action': ('action', 'Action'),
                'Color': ('grid_object', 'Color')}.get(sort)

    def obj_to_json(self, model, term):
        v = mval(model, term)
        return self.objval_to_json(v)

    def objval_to_json(self, v):
        om = self.I.objmodel
        name = v.decl().name()
        out = {'cls': name}
        for (fname, desc), child in zip(om.fields[name], v.children()):
            if desc == 'Obj':
                out[fname] = self.objval_to_json(child)
            else:
                out[fname] = str(child)
        return out

    def make(self, sort, hint):
        I = self.I
        if isinstance(sort, tuple):
            kind = sort[0]
            if kind == 'const':
                return SymInput(sort, sort[1], lambda m: {'const': repr(sort[1])})
            if kind == 'oneof':
                # ('oneof', [v0, v1, ...]): one of the given constants (one path each)
                vals = list(sort[1])
                for v in vals[:-1]:
                    if I.branch(I.fresh_bool(hint + '_is_' + str(v))):
                        return SymInput(sort, v, lambda m, v=v: {'const': repr(v)})
                return SymInput(sort, vals[-1], lambda m: {'const': repr(vals[-1])})
            if kind == 'list':
                # ('list', elem_sort, n) fixed length list
                subs = [self.make(sort[1], f'{hint}{k}') for k in range(sort[2])]
                return SymInput(sort, [s.value for s in subs], lambda m: [s.extract(m) for s in subs],
                                sum([s.sizes for s in subs], []), sum([s.coords for s in subs], []))
            if kind == 'distinct-set':
                from .seqs import CSet
                subs = [self.make(sort[1], f'{hint}{k}') for k in range(sort[2])]
                terms = [s.value.term for s in subs]
                if len(terms) > 1:
                    I.assume(z3.Distinct(*terms))
                cs = CSet([s.value for s in subs])
                cs.exact = True
                return SymInput(sort, cs, lambda m: {'set': [s.extract(m) for s in subs]})
            if kind == 'fn':
                return self.make_fn(sort[1], hint, sort[2] if len(sort) > 2 else None)
            if kind == 'object':
                subs = {k: self.make(v, f'{hint}_{k}') for k, v in sort[1].items()}
                from .model import ClassModel
                inst = Instance(ClassModel('namespace', [], {}, None), {k: s.value for k, s in subs.items()})
                return SymInput(sort, inst, lambda m: {'object': {k: s.extract(m) for k, s in subs.items()}},
                                sum([s.sizes for s in subs.values()], []), sum([s.coords for s in subs.values()], []))
            if kind == 'new':
                # ('new', 'mod:Class', [arg sorts], {kw sorts}): instance built by the real constructor
                cls = self.resolve(sort[1])
                subs = [self.make(x, f'{hint}_a{i}') for i, x in enumerate(sort[2])]
                ksubs = {k: self.make(v, f'{hint}_{k}') for k, v in (sort[3] if len(sort) > 3 else {}).items()}
                inst = I.instantiate(cls, [x.value for x in subs], {k: x.value for k, x in ksubs.items()})
                si = SymInput(sort, inst, lambda m: {'new': sort[1], 'args': [x.extract(m) for x in subs],
                                                     'kwargs': {k: x.extract(m) for k, x in ksubs.items()}},
                              sum([x.sizes for x in subs + list(ksubs.values())], []),
                              sum([x.coords for x in subs + list(ksubs.values())], []))
                si.parts = {'args': subs, 'kwargs': ksubs}
                return si
            if kind == 'raw':
                # ('raw', 'mod:Class', {field: sort}): instance with the given fields, constructor not run
                cls = self.resolve(sort[1])
                subs = {k: self.make(v, f'{hint}_{k}') for k, v in sort[2].items()}
                inst = Instance(cls, {k: s.value for k, s in subs.items()})
                return SymInput(sort, inst, lambda m: {'raw': sort[1], 'fields': {k: s.extract(m) for k, s in subs.items()}},
                                sum([s.sizes for s in subs.values()], []), sum([s.coords for s in subs.values()], []))
            if kind == 'dict':
                subs = {k: self.make(v, f'{hint}_{k}') for k, v in sort[1].items()}
                return SymInput(sort, {k: s.value for k, s in subs.items()},
                                lambda m: {'dict': {k: s.extract(m) for k, s in subs.items()}})
            if kind == 'opt':
                if I.branch(I.fresh_bool(hint + '_isnone')):
                    return SymInput(sort, None, lambda m: {'none': 1})
                return self.make(sort[1], hint)
            if kind == 'tuple':
                subs = [self.make(x, f'{hint}_{i}') for i, x in enumerate(sort[1])]
                return SymInput(sort, tuple(s.value for s in subs), lambda m: {'tuple': [s.extract(m) for s in subs]},
                                sum([s.sizes for s in subs], []), sum([s.coords for s in subs], []))
            if kind == 'with':
                base = self.make(sort[1], hint)
                subs = {k: self.make(v, f'{hint}_{k}') for k, v in sort[2].items()}
                for k, s in subs.items():
                    base.value.fields[k] = s.value
                return SymInput(sort, base.value, lambda m: {'with': base.extract(m),
                                                             'set': {k: s.extract(m) for k, s in subs.items()}},
                                base.sizes + sum([s.sizes for s in subs.values()], []),
                                base.coords + sum([s.coords for s in subs.values()], []))
        if sort == 'int':
            v = I.fresh_int(hint)
            return SymInput(sort, v, lambda m: mint(m, v), coords=[v])
        if sort == 'small':
            v = I.fresh_int(hint)
            return SymInput(sort, v, lambda m: mint(m, v), coords=[v])
        if sort == 'nat':
            v = I.fresh_int(hint)
            I.assume(v >= 0)
            return SymInput(sort, v, lambda m: mint(m, v), coords=[v])
        if sort == 'IntSeq':
            # list of integers of any length: length n >= 0, elements V(i)
            n = I.fresh_int(hint + '_len')
            I.assume(n >= 0)
            V = z3.Function(I.fresh_name(hint + '_elem'), z3.IntSort(), z3.IntSort())
            lst = SList(n, lambda i: V(zint(i)))
            return SymInput(sort, lst, lambda m: [mint(m, V(z3.IntVal(i))) for i in range(mint(m, n))], sizes=[n])
        if sort == 'bool':
            v = I.fresh_bool(hint)
            return SymInput(sort, v, lambda m: bool(z3.is_true(mval(m, v))))
        if sort == 'float':
            v = I.fresh_real(hint)
            def ex(m):
                r = mval(m, v)
                try:
                    return float(r.as_fraction())
                except Exception:
                    return float(r.approx(10).as_fraction())
            return SymInput(sort, v, ex)
        if sort == 'None':
            return SymInput(sort, None, lambda m: {'none': 1})
        if sort == 'Token':
            from .verify import StubToken
            tok = StubToken(hint, 0)
            return SymInput(sort, tok, lambda m: {'token': hint})
        if sort == 'SpaceType':
            cls = self.I.load_module('gym_gridverse.representations.spaces').ns['SpaceType']
            ev = I.fresh_enum(cls, hint)
            return SymInput(sort, ev, lambda m: {'enum': 'SpaceType', 'name': str(mval(m, ev.term))})
        if sort == 'str':
            return SymInput(sort, 'name', lambda m: 'name')
        ec = self.enum_cls(sort)
        if ec:
            cls = self.cls(*ec)
            ev = I.fresh_enum(cls, hint)
            return SymInput(sort, ev, lambda m: {'enum': sort, 'name': str(mval(m, ev.term))})
        if sort == 'DoorStatus':
            cls = self.cls('grid_object', 'Door').ns['Status']
            ev = I.fresh_enum(cls, hint)
            return SymInput(sort, ev, lambda m: {'enum': 'DoorStatus', 'name': str(mval(m, ev.term))})
        if sort == 'Position':
            y, x = I.fresh_int(hint + '_y'), I.fresh_int(hint + '_x')
            p = I.instantiate(self.cls('geometry', 'Position'), [y, x], {})
            return SymInput(sort, p, lambda m: {'Position': [mint(m, y), mint(m, x)]}, coords=[y, x])
        if sort == 'Shape':
            h, w = I.fresh_int(hint + '_h'), I.fresh_int(hint + '_w')
            p = I.instantiate(self.cls('geometry', 'Shape'), [h, w], {})
            return SymInput(sort, p, lambda m: {'Shape': [mint(m, h), mint(m, w)]}, coords=[h, w])
        if sort == 'Area':
            a, b, c, d = [I.fresh_int(hint + s) for s in ('_y0', '_y1', '_x0', '_x1')]
            I.assume(z3.And(a <= b, c <= d))
            p = I.instantiate(self.cls('geometry', 'Area'), [(a, b), (c, d)], {})
            return SymInput(sort, p, lambda m: {'Area': [[mint(m, a), mint(m, b)], [mint(m, c), mint(m, d)]]},
                            coords=[a, b, c, d])
        if sort == 'Transform':
            p = self.make('Position', hint + '_p')
            o = self.make('Orientation', hint + '_o')
            t = I.instantiate(self.cls('geometry', 'Transform'), [p.value, o.value], {})
            return SymInput(sort, t, lambda m: {'Transform': [p.extract(m), o.extract(m)]}, coords=p.coords)
        if sort == 'Obj':
            o = I.objmodel.fresh_obj(hint)
            return SymInput(sort, o, lambda m, t=o.term: self.obj_to_json(m, t))
        if sort == 'Class0':
            # a class whose constructor takes no arguments (usable as a grid-object factory)
            om = I.objmodel
            c = om.fresh_class(hint)
            I.assume(z3.Or(*[c.term == om.cls_consts[x.name] for x in om.classes if not om.fields[x.name]]))
            return SymInput(sort, c, lambda m, t=c.term: {'class': str(mval(m, t))})
        if sort == 'Class':
            c = I.objmodel.fresh_class(hint)
            return SymInput(sort, c, lambda m, t=c.term: {'class': str(mval(m, t))})
        if sort == 'Grid':
            return self.make_grid(hint)
        if sort == 'Agent':
            p = self.make('Position', hint + '_pos')
            o = self.make('Orientation', hint + '_ori')
            it = self.make('Obj', hint + '_item')
            a = I.instantiate(self.cls('agent', 'Agent'), [p.value, o.value, it.value], {})
            return SymInput(sort, a, lambda m: {'Agent': {'position': p.extract(m), 'orientation': o.extract(m),
                                                          'grid_object': it.extract(m)}}, coords=p.coords)
        if sort in ('State', 'Observation'):
            g = self.make_grid(hint + '_grid')
            a = self.make('Agent', hint + '_agent')
            mod = 'state' if sort == 'State' else 'observation'
            s = I.instantiate(self.cls(mod, sort), [g.value, a.value], {})
            return SymInput(sort, s, lambda m: {sort: {'grid': g.extract(m), 'agent': a.extract(m)}},
                            sizes=g.sizes, coords=a.coords)
        if sort == 'Rng':
            r = Rng(I.fresh_name(hint))
            def ex(m):
                out = []
                for d in r.draws:
                    if d[0] == 'random_array':
                        f, (h, w) = d[1], d[2]
                        hh, ww = mint(m, concretize_z(h)), mint(m, concretize_z(w))
                        out.append({'kind': 'random_array', 'values': [[float(mval(m, f(i, j)).as_fraction())
                                                                        for j in range(ww)] for i in range(hh)]})
                    elif d[0] == 'random':
                        out.append({'kind': 'random', 'values': [float(mval(m, d[1][0]).as_fraction())]})
                    elif d[0] in ('shuffle_fn', 'sample'):
                        f = d[1]
                        n = d[2] if d[0] == 'shuffle_fn' else d[2][1]
                        nn = mint(m, concretize_z(n))
                        out.append({'kind': 'shuffle' if d[0] == 'shuffle_fn' else 'choices',
                                    'values': [mint(m, f(z3.IntVal(i))) for i in range(max(nn, 0))]})
                    else:
                        out.append({'kind': d[0], 'values': [mint(m, t) for t in d[1]]})
                return {'Rng': out}
            return SymInput(sort, r, ex)
        if sort == 'ObjEncoder':
            # a pure per-object encoder: three integer channels, each a function of the object only
            om = I.objmodel
            fs = [z3.Function(I.fresh_name(f'{hint}_c{k}'), om.sort, z3.IntSort()) for k in range(3)]
            from .model import Builtin
            fn = Builtin(hint, lambda I_, a, k: [f(a[0].term) for f in fs])
            return SymInput(sort, fn, lambda m: {'ObjEncoder': 'default-triple'})
        if sort == 'ObjPred':
            # arbitrary predicate on grid objects (a *function*: equal objects, equal answers)
            om = I.objmodel
            P = z3.Function(I.fresh_name(hint), om.sort, z3.BoolSort())
            from .model import Builtin
            fn = Builtin(hint, lambda I_, a, k: P(a[0].term))
            def ex(m):
                # report the predicate on the finite set of flat objects
                out = []
                for c in om.classes:
                    if c.name == 'Box':
                        continue
                    import itertools
                    doms = []
                    for fname, desc in om.fields[c.name]:
                        doms.append([desc.enum_consts[n] for n in desc.enum_canon])
                    for combo in itertools.product(*doms):
                        t = om.ctor[c.name](*combo)
                        if z3.is_true(mval(m, P(t))):
                            out.append(self.objval_to_json(t))
                return {'ObjPred': out}
            return SymInput(sort, fn, ex)
        if sort == 'VisFn':
            return self.make_visfn(hint)
        if sort == 'RealArr':
            h, w = I.fresh_int(hint + '_h'), I.fresh_int(hint + '_w')
            I.assume(z3.And(h >= 0, w >= 0))
            V = z3.Function(I.fresh_name(hint + '_A'), z3.IntSort(), z3.IntSort(), z3.RealSort())
            arr = SArr(h, w, lambda i, j: V(zint(i), zint(j)), 'real')
            return SymInput(sort, arr, lambda m: {'unextractable': 'array produced by a stub'}, sizes=[h, w])
        if sort in ('BoolArr', 'IntArr'):
            h, w = I.fresh_int(hint + '_h'), I.fresh_int(hint + '_w')
            I.assume(z3.And(h >= 0, w >= 0))
            zs = z3.BoolSort() if sort == 'BoolArr' else z3.IntSort()
            V = z3.Function(I.fresh_name(hint + '_A'), z3.IntSort(), z3.IntSort(), zs)
            arr = SArr(h, w, lambda i, j: V(zint(i), zint(j)), 'bool' if sort == 'BoolArr' else 'int')
            def ex(m):
                hh, ww = mint(m, h), mint(m, w)
                if hh * ww > 400:
                    raise ValueError('model array too large')
                conv = (lambda v: bool(z3.is_true(v))) if sort == 'BoolArr' else (lambda v: v.as_long())
                return {sort: [[conv(mval(m, V(i, j))) for j in range(ww)] for i in range(hh)], 'shape': [hh, ww]}
            return SymInput(sort, arr, ex, sizes=[h, w])
        if sort == 'NextPosFn':
            vf = I.load_module('gym_gridverse.envs.visibility_functions')
            left = I.branch(I.fresh_bool(hint + '_left'))
            name = '_partially_occluded_next_positions_front_' + ('left' if left else 'right')
            return SymInput(sort, vf.ns[name], lambda m: {'NextPosFn': name})
        if sort == 'Rays':
            nr = I.fresh_int(hint + '_n')
            I.assume(nr >= 0)
            LEN = z3.Function(I.fresh_name(hint + '_len'), z3.IntSort(), z3.IntSort())
            RY = z3.Function(I.fresh_name(hint + '_y'), z3.IntSort(), z3.IntSort(), z3.IntSort())
            RX = z3.Function(I.fresh_name(hint + '_x'), z3.IntSort(), z3.IntSort(), z3.IntSort())
            r_ = z3.Int('r!len')
            I.assume(z3.ForAll([r_], LEN(r_) >= 0, patterns=[LEN(r_)]))
            P = self.cls('geometry', 'Position')
            def ray(r):
                def pos(i):
                    p = Instance(P, {'y': RY(zint(r), zint(i)), 'x': RX(zint(r), zint(i))})
                    p.frozen = True
                    return p
                return SList(LEN(zint(r)), pos)
            rays = SList(nr, ray)
            return SymInput(sort, rays, lambda m: {'unextractable': 'rays come from the real function natively'})
        raise Unsupported(f'input sort {sort}')

    def resolve(self, target):
        mod, qual = target.split(':')
        obj = self.I.load_module(mod)
        for part in qual.split('.'):
            obj = self.I.getattr_(obj, part)
        return obj

    def make_fn(self, ret_sort, hint, mutates=None):
        """uninterpreted callable: records its calls, returns an arbitrary value of ret_sort"""
        I = self.I
        calls = []
        def handler(I_, f, args, kwargs):
            k = len(calls)
            r = self.make(ret_sort, f'{hint}_r{k}')
            self.seq += 1
            calls.append({'args': list(args), 'kwargs': dict(kwargs), 'result': r.value, 'si': r, 'seq': self.seq})
            return r.value
        fn = SymCallable(hint, handler)
        fn.calls = calls
        def ex(m):
            return {'fn': [c['si'].extract(m) for c in calls], 'ret': ret_sort if isinstance(ret_sort, str) else list(ret_sort)}
        si = SymInput(('fn', ret_sort), fn, ex)
        return si

    def make_visfn(self, hint):
        """uninterpreted visibility callable: any boolean array of any shape; protocol
        assumption: it does not modify its grid argument"""
        I = self.I
        calls = []
        def handler(I_, f, args, kwargs):
            h, w = I.fresh_int(hint + '_h'), I.fresh_int(hint + '_w')
            I.assume(z3.And(h >= 0, w >= 0))
            V = z3.Function(I.fresh_name(hint + '_V'), z3.IntSort(), z3.IntSort(), z3.BoolSort())
            arr = SArr(h, w, lambda i, j: V(zint(i), zint(j)), 'bool')
            from .verify import snapshot
            calls.append({'h': h, 'w': w, 'V': V, 'result': arr, 'args': [snapshot(I, x) for x in args],
                          'kwargs': kwargs})
            return arr
        fn = SymCallable(hint, handler)
        fn.calls = calls
        def ex(m):
            out = []
            for c in calls:
                hh, ww = mint(m, c['h']), mint(m, c['w'])
                if hh * ww > 400:
                    raise ValueError('model array too large')
                out.append({'shape': [hh, ww], 'values': [[bool(z3.is_true(mval(m, c['V'](i, j)))) for j in range(ww)]
                                                            for i in range(hh)]})
            return {'VisFn': out}
        si = SymInput('VisFn', fn, ex)
        si.calls = calls
        return si

    def make_grid(self, hint):
        I = self.I
        om = I.objmodel
        h, w = I.fresh_int(hint + '_h'), I.fresh_int(hint + '_w')
        I.assume(z3.And(h >= 1, w >= 1))
        cells = z3.Function(I.fresh_name(hint + '_cells'), z3.IntSort(), z3.IntSort(), om.sort)
        from .core import zint
        objects = SList(h, lambda i: SList(w, lambda j: SObj(cells(zint(i), zint(j)))))
        objects.track = True
        objects.root = objects
        g = I.instantiate(self.cls('grid', 'Grid'), [objects], {})
        def ex(m):
            hh, ww = mint(m, h), mint(m, w)
            if hh * ww > 400:
                raise ValueError('model grid too large')
            return {'Grid': [[self.obj_to_json(m, cells(i, j)) for j in range(ww)] for i in range(hh)]}
        si = SymInput('Grid', g, ex, sizes=[h, w])
        si.cells = cells
        si.h, si.w = h, w
        return si


def concretize_z(t):
    from .core import zint
    return zint(t)
