"""Loops over symbolic sequences: invariant rules.

foreach (order-oblivious): Inv(D) over the set D of processed elements.
   init:  Inv(empty) holds at loop entry
   step:  for arbitrary D subset of S and arbitrary v in S:  Inv(D) => wp(body, Inv(D + {v}))
   use :  Inv(S) after the loop
indexed: Inv(k) over the processed prefix of a list (k = number of processed elements).
The state modified by the loop (declared in the loop spec, checked by a write
barrier) is havocked; everything else keeps its pre-loop value."""
from __future__ import annotations

import ast
import z3

from .core import (BreakSignal, ContinueSignal, EnumVal, Gen, Instance, PathEnd, PyRaise,
                   ReturnSignal, SArr, SList, SObj, Unsupported, concretize, is_z3, zbool, zint)
from .model import Builtin, Env, FunctionModel
from .seqs import GenList, Part, SRange


class NS:
    """read-only namespace (snapshot of locals)"""

    def __init__(self, d):
        self.d = d


class LoopSpec:
    def __init__(self, fn, target, loop, kind, modifies, opts):
        self.fn = fn
        self.target = target
        self.loop = loop
        self.kind = kind
        self.modifies = modifies
        self.opts = opts


def reads_confined(loop, stmt, names):
    """every read of `names` inside the loop happens inside `stmt` (the branch that assigns them)"""
    def loads(tree):
        return sum(1 for n in ast.walk(tree) if isinstance(n, ast.Name) and isinstance(n.ctx, ast.Load) and n.id in names)
    return loads(loop) == loads(stmt)


class NotAppendLoop(Exception):
    pass


class LoopMixin:
    # ------------------------------------------------------------------ append-only loops
    # `for v in S: [guards / continue / temporaries] acc.append(E)` builds the list
    # acc + [E for v in S if guards]; such loops (also nested) are summarised as the comprehension they
    # spell out, so that rewriting a comprehension as a loop does not need a hand-written invariant.
    def append_target(self, node):
        names = set()
        local_lists = set()

        def visit(stmts):
            for st in stmts:
                if isinstance(st, ast.Expr) and isinstance(st.value, ast.Call) and isinstance(st.value.func, ast.Attribute) \
                        and st.value.func.attr == 'append' and isinstance(st.value.func.value, ast.Name) \
                        and len(st.value.args) == 1 and not st.value.keywords:
                    names.add(st.value.func.value.id)
                elif isinstance(st, ast.If):
                    visit(st.body)
                    visit(st.orelse)
                elif isinstance(st, ast.For) and not st.orelse:
                    t = self.append_target(st)
                    if t is None:
                        raise NotAppendLoop()
                    if t not in local_lists:
                        names.add(t)
                elif isinstance(st, (ast.Continue, ast.Pass)):
                    pass
                elif (isinstance(st, ast.Assign) and len(st.targets) == 1 and isinstance(st.targets[0], ast.Name)) or (
                        isinstance(st, ast.AnnAssign) and isinstance(st.target, ast.Name) and st.value is not None):
                    tgt = st.targets[0] if isinstance(st, ast.Assign) else st.target
                    if isinstance(st.value, ast.List) and not st.value.elts:
                        local_lists.add(tgt.id)
                elif isinstance(st, ast.Expr) and isinstance(st.value, ast.Constant):
                    pass
                else:
                    raise NotAppendLoop()
        try:
            visit(node.body)
        except NotAppendLoop:
            return None
        names -= local_lists
        if len(names) != 1 or node.orelse:
            return None
        return names.pop()

    def summarize_append_loop(self, node, it, env):
        from .interp import DEAD, MergeFail, SymbolicIteration
        acc_name = self.append_target(node)
        if acc_name is None:
            return False
        try:
            acc = env.lookup(acc_name)
        except KeyError:
            return False
        if not isinstance(acc, list):
            return False
        assigned = self.assigned_names(node) - {acc_name} - self.assigned_names(node.target)
        if any(n in env.vars for n in assigned):
            return False     # temporaries must be local to the loop
        parts = []

        def conj(a, b):
            if a is True:
                return b
            if b is True:
                return a
            return z3.And(zbool(a), zbool(b))

        def run_loop(fnode, seq, e, ranges, guard):
            try:
                items = self.iterate(seq)
                alts = [([], True, x) for x in items]
            except SymbolicIteration as si:
                alts = self.sym_domain(si.value)
            for r2, f2, el in alts:
                e2 = Env(parent=e, module=e.module)
                self.assign(fnode.target, el, e2)
                g2 = conj(guard, f2)
                events = []
                block(fnode.body, e2, ranges + list(r2), g2, events)
                # at most one append per iteration: guards must be pairwise exclusive
                for i in range(len(events)):
                    for j in range(i + 1, len(events)):
                        if events[i][0] == events[j][0] and self.feasible(z3.And(
                                zbool(Part(events[i][0], True, None).guard()), zbool(events[i][1]), zbool(events[j][1]))):
                            raise NotAppendLoop()
                # several exclusive appends of one iteration (if/else both appending) are one element chosen by
                # the guards, as the conditional expression of the equivalent comprehension would be
                if len(events) > 1 and all(ev[0] == events[0][0] for ev in events):
                    try:
                        val = events[-1][2]
                        for rg, gd, v in reversed(events[:-1]):
                            val = self.merge(zbool(gd), v, val)
                        gall = events[0][1]
                        for rg, gd, v in events[1:]:
                            gall = True if (gall is True or gd is True) else z3.Or(zbool(gall), zbool(gd))
                        gall = concretize(z3.simplify(zbool(gall))) if gall is not True else True
                        events = [(events[0][0], gall, val)]
                    except MergeFail:
                        pass
                parts.extend(Part(rg, gd, val) for rg, gd, val in events)

        def block(stmts, e, ranges, guard, events):
            """returns the guard under which execution continues after the statements"""
            live = guard
            for idx, st in enumerate(stmts):
                if live is False:
                    break
                full = conj(Part(ranges, True, None).guard(), live)
                if isinstance(st, ast.Expr) and isinstance(st.value, ast.Constant):
                    continue
                if isinstance(st, ast.Pass):
                    continue
                if isinstance(st, ast.Continue):
                    live = False
                    break
                if isinstance(st, ast.Expr):
                    v = self.guarded(lambda: self.eval(st.value.args[0], e), full)
                    if v is not DEAD:
                        events.append((list(ranges), live, v))
                    continue
                if isinstance(st, (ast.Assign, ast.AnnAssign)):
                    v = self.guarded(lambda: self.eval(st.value, e), full)
                    if v is DEAD:
                        live = False
                        break
                    tgt = st.targets[0] if isinstance(st, ast.Assign) else st.target
                    e.vars[tgt.id] = v
                    continue
                if isinstance(st, ast.If):
                    c = self.guarded(lambda: self.truth_term(self.eval(st.test, e)), full)
                    if c is DEAD:
                        live = False
                        break
                    if c is True:
                        live = block(st.body, e, ranges, live, events)
                        continue
                    if c is False:
                        live = block(st.orelse, e, ranges, live, events)
                        continue
                    e_t = Env(parent=e, module=e.module)
                    e_f = Env(parent=e, module=e.module)
                    lt = block(st.body, e_t, ranges, conj(live, c), events)
                    lf = block(st.orelse, e_f, ranges, conj(live, z3.Not(c)), events)
                    if e_t.vars or e_f.vars:
                        # temporaries assigned under a condition are fine when nothing after the `if` reads them
                        if not reads_confined(node, st, set(e_t.vars) | set(e_f.vars)):
                            raise NotAppendLoop()
                    live = False if (lt is False and lf is False) else (
                        lf if lt is False else (lt if lf is False else z3.Or(zbool(lt), zbool(lf))))
                    continue
                if isinstance(st, ast.For):
                    seq = self.guarded(lambda: self.eval(st.iter, e), full)
                    if seq is DEAD:
                        continue
                    t = self.append_target(st)
                    if t != acc_name:
                        # inner loop filling a list that is local to this iteration (e.g. a row)
                        ok = self.guarded(lambda: self.summarize_append_loop(st, seq, e), full)
                        if ok is not True:
                            raise NotAppendLoop()
                        continue
                    run_loop(st, seq, e, ranges, live)
                    continue
                raise NotAppendLoop()
            return live

        saved_pc = self.pc_mark()
        from .core import _birth
        outermost = self.summary_floor is None
        if outermost:
            self.summary_floor = _birth[0]
        try:
            run_loop(node, it, env, [], True)
        except (NotAppendLoop, Unsupported, MergeFail) as e:
            import os
            if os.environ.get('PYVC_DEBUG'):
                print('append-loop not summarised:', type(e).__name__, e)
            self.pc_reset(saved_pc)
            return False
        finally:
            if outermost:
                self.summary_floor = None
        new = self.gen_to_list(Gen(parts))
        if acc:
            if isinstance(new, list):
                new = list(acc) + new
            else:
                return False
        # rebind the accumulator (it is a local list that nothing else references in this pattern)
        self.check_write(acc)
        if isinstance(new, list):
            acc[:] = new
        else:
            self.rebind_everywhere(env, acc_name, acc, new)
        return True

    def rebind_everywhere(self, env, name, old, new):
        e = env
        while e is not None:
            if name in e.vars and e.vars[name] is old:
                e.vars[name] = new
                return
            e = e.parent
        raise Unsupported('accumulator not found')

    def loop_ordinal(self, fnode, node):
        # loops that merely build a list by appending are summarised automatically and do not count
        fors = [n for n in ast.walk(fnode) if isinstance(n, (ast.For, ast.While))
                and (n is node or not (isinstance(n, ast.For) and self.append_target(n) is not None))]
        fors.sort(key=lambda n: (n.lineno, n.col_offset))
        return fors.index(node)

    def symbolic_for(self, node, it, env):
        if not self.fn_stack:
            raise Unsupported('symbolic loop at module level')
        f = self.fn_stack[-1]
        k = self.loop_ordinal(f.node, getattr(node, 'pyvc_from_while', node))
        spec = self.loop_specs.get((f.module.name, f.qualname, k))
        outer_flag = getattr(self, 'loop_heuristic', False)
        self.loop_heuristic = spec is None
        if spec is None:
            # a loop moved into a helper of the same module keeps its invariant if it iterates the same expression
            src = ast.unparse(node.iter)
            cands = [sp for (m_, q_, k_), sp in self.loop_specs.items()
                     if m_ == f.module.name and sp.opts.get('iter') == src]
            if cands and all(c.fn is cands[0].fn for c in cands):
                spec = cands[0]
        if spec is None:
            # last resort: the invariants declared for this module whose parameters all name things in scope here; used
            # only when they all say the same thing (same body), and like every invariant only after its obligations
            # are proved for this loop
            reserved = {'done', 'pre', 'k', 'n', 'item', 'before'}
            cands = []
            for (m_, q_, k_), sp in self.loop_specs.items():
                if m_ != f.module.name:
                    continue
                params = [a.arg for a in sp.fn.node.args.args if a.arg not in reserved]
                own_ = self.assigned_names(f.node)
                if all(env.has(p_) or (p_ not in own_ and self.alias_for(p_, env) is not None) for p_ in params):
                    cands.append(sp)
            bodies = {ast.dump(ast.Module(body=c.fn.node.body, type_ignores=[])) + c.kind for c in cands}
            if cands and len(bodies) == 1:
                spec = cands[0]
        if spec is None:
            raise Unsupported(f'loop {k} of {f.qualname} iterates a symbolic sequence and has no invariant')
        self.bind_invariant_aliases(spec, env)
        if node.orelse:
            raise Unsupported('for-else with invariant')
        try:
            if spec.kind == 'foreach':
                return self.loop_foreach(node, it, env, spec, f)
            if spec.kind == 'indexed':
                return self.loop_indexed(node, it, env, spec, f)
            raise Unsupported(f'loop kind {spec.kind}')
        finally:
            # (an inner loop sets the flag for itself; give the enclosing loop its own value back)
            self.loop_heuristic = outer_flag

    # ------------------------------------------------------------------ invariant parameters under other names
    def alias_for(self, name, env):
        """the one local whose name shares a word with `name` (observation_grid ~ grid), or None"""
        words = set(name.split('_'))
        hits = [n for n in env.vars if not n.startswith('__') and words & set(n.split('_'))]
        return hits[0] if len(hits) == 1 else None

    def bind_invariant_aliases(self, spec, env):
        """a loop moved into a helper may see the same things under other parameter names: an invariant parameter
        (or modifies name) that is not a local is bound to the one local sharing a word with it; the invariant is
        proved for the loop as always"""
        reserved = {'done', 'pre', 'k', 'n', 'item', 'before'}
        names = [a.arg for a in spec.fn.node.args.args if a.arg not in reserved] + list(spec.modifies)
        for fn in (spec.opts.get('step') or {}).values():
            names += [a.arg for a in fn.node.args.args if a.arg not in reserved]
        own = self.assigned_names(self.fn_stack[-1].node) if self.fn_stack else set()
        for nm in names:
            if not env.has(nm) and nm not in own:      # (a name this function assigns later is simply not bound yet)
                al = self.alias_for(nm, env)
                if al is not None:
                    env.vars[nm] = env.vars[al]
                    self.loop_heuristic = True

    # ------------------------------------------------------------------ havoc
    def havoc_value(self, v, hint):
        """replace the mutable content of v by unconstrained content (in place)"""
        if isinstance(v, Instance) and v.cls.name == 'Grid':
            L = v.fields['objects']
            self.havoc_value(L, hint)
            return v
        if isinstance(v, Instance) and v.cls.name in ('State', 'Observation'):
            self.havoc_value(v.fields['grid'], hint + '_grid')
            return v
        if isinstance(v, SList):
            if not self.is_2d(v):
                raise Unsupported('havoc of 1-D list')
            om = self.objmodel
            cells = z3.Function(self.fresh_name(hint + '_cells'), z3.IntSort(), z3.IntSort(), om.sort)
            old_elem = v.elem
            def row(i, old_elem=old_elem):
                inner = old_elem(i)
                n = self.inner_len(inner)
                return SList(n, lambda j: SObj(cells(zint(i), zint(j))))
            v.elem = row
            v.writes = []
            v.cellwrites = []
            v.version += 1
            return v
        if isinstance(v, SArr):
            sort = {'bool': z3.BoolSort(), 'int': z3.IntSort(), 'real': z3.RealSort()}[v.kind]
            fn = z3.Function(self.fresh_name(hint + '_arr'), z3.IntSort(), z3.IntSort(), sort)
            v.elem = lambda i, j: fn(zint(i), zint(j))
            v.writes = []
            return v
        raise Unsupported(f'havoc of {type(v).__name__}')

    def havoc_scalar(self, v, hint):
        if isinstance(v, bool) or isinstance(v, z3.BoolRef):
            return self.fresh_bool(hint)
        if isinstance(v, int) or (isinstance(v, z3.ArithRef) and v.is_int()):
            return self.fresh_int(hint)
        if isinstance(v, float) or (isinstance(v, z3.ArithRef) and v.is_real()):
            return self.fresh_real(hint)
        if isinstance(v, EnumVal):
            return self.fresh_enum(v.cls, hint)
        if isinstance(v, SObj):
            return self.objmodel.fresh_obj(hint)
        if isinstance(v, Instance) and v.cls.is_dataclass and getattr(v, 'frozen', False) is not None \
                and all(isinstance(x, (bool, int, float, EnumVal)) or is_z3(x) for x in v.fields.values()):
            # a small value object (Position ...): the same class with arbitrary field values
            r = Instance(v.cls, {k: self.havoc_scalar(x, f'{hint}_{k}') for k, x in v.fields.items()})
            r.frozen = getattr(v, 'frozen', False)
            return r
        if v is None:
            raise Unsupported('havoc of a local that is None before the loop')
        raise Unsupported(f'havoc of local of type {type(v).__name__}')

    def assigned_names(self, node):
        out = set()
        for n in ast.walk(node):
            if isinstance(n, ast.Name) and isinstance(n.ctx, ast.Store):
                out.add(n.id)
        return out

    # --------------------------------------------------------------- elements
    def elem_key(self, v):
        """integer key tuple identifying an element value"""
        if isinstance(v, Instance) and v.cls.name == 'Position':
            return (zint(v.fields['y']), zint(v.fields['x']))
        if isinstance(v, (int,)) or (isinstance(v, z3.ArithRef) and v.is_int()):
            return (zint(v),)
        if isinstance(v, tuple) and all(isinstance(x, int) or is_z3(x) for x in v):
            return tuple(zint(x) for x in v)
        raise Unsupported(f'loop element of type {type(v).__name__}')

    def call_inv(self, spec, env, extra):
        fn = spec.fn
        names = [a.arg for a in fn.node.args.args]
        kwargs = {}
        for n in names:
            if n in extra:
                kwargs[n] = extra[n]
            else:
                try:
                    kwargs[n] = env.lookup(n)
                except KeyError:
                    raise Unsupported(f'loop invariant parameter {n} is not a local')
        try:
            return self.truth_term(self.call(fn, [], kwargs))
        except z3.Z3Exception as e:
            raise Unsupported(f'loop invariant does not fit this loop: {e}')

    def step_checks(self, spec, env, lid, extra):
        """per-iteration postconditions (`step=` of the loop spec): a dict name -> function"""
        checks = spec.opts.get('step')
        if not checks:
            return
        saved_from = self.reads_from
        self.reads_from = getattr(self, 'body_read_mark', 0)
        try:
            self._step_checks(spec, env, lid, extra, checks)
        finally:
            self.reads_from = saved_from

    def _step_checks(self, spec, env, lid, extra, checks):
        for name, fn in checks.items():
            names = [a.arg for a in fn.node.args.args]
            kwargs = {}
            for nm in names:
                if nm in extra:
                    kwargs[nm] = extra[nm]
                else:
                    try:
                        kwargs[nm] = env.lookup(nm)
                    except KeyError:
                        raise Unsupported(f'step check parameter {nm} is not a local')
            self.loop_prove(f'{lid}.step:{name}', self.truth_term(self.call(fn, [], kwargs)))

    def snapshot_locals(self, env, names):
        from .verify import snapshot
        d = {}
        for n in names:
            try:
                d[n] = snapshot(self, env.lookup(n))
            except KeyError:
                pass
        return NS(d)

    def loop_prove(self, name, goal):
        if self.prove_hook is None:
            raise Unsupported('loop invariant outside a verification run')
        if getattr(self, 'loop_heuristic', False):
            # the invariant was associated with this loop by a heuristic (same iterable, same module, parameters
            # under other names): it counts only if it proves; a failure says the guess was wrong, not the code
            probe = getattr(self, 'prove_probe', None)
            if probe is not None and probe(goal) != 'unsat':
                raise Unsupported('an invariant matched heuristically to this loop does not hold for it: ' + name)
        self.prove_hook(name, goal)

    def run_body_checked(self, node, env, spec, allowed):
        """run the loop body once with a write barrier"""
        log = []
        saved = self.write_log
        self.write_log = log
        self.body_read_mark = len(self.read_log) if self.read_log is not None else 0
        self.in_loop_step += 1
        try:
            try:
                self.exec_block(node.body, env)
            except ContinueSignal:
                pass
            except BreakSignal:
                raise Unsupported('break in a loop with invariant')
        finally:
            self.in_loop_step -= 1
            self.write_log = saved
            if saved is not None:
                saved.extend(log)
        for obj, key in log:
            if getattr(obj, 'birth', 0) > self.loop_birth:
                continue
            if not any(obj is a for a in allowed):
                raise Unsupported(f'loop body writes an object not declared in modifies ({type(obj).__name__}.{key})')

    def modified_objects(self, env, spec):
        objs = []
        allowed = []
        for n in spec.modifies:
            try:
                v = env.lookup(n)
            except KeyError:
                raise Unsupported(f'the loop invariant says the loop modifies {n!r}, which is not a local here')
            objs.append((n, v))
            allowed.append(v)
            if isinstance(v, Instance):
                for fv in v.fields.values():
                    allowed.append(fv)
                    if isinstance(fv, Instance) and fv.cls.name == 'Grid':
                        allowed.extend(fv.fields.values())
        return objs, allowed

    # ---------------------------------------------------------------- foreach
    def loop_foreach(self, node, it, env, spec, f):
        from .core import _birth
        lid = f'loop:{spec.fn.name}'
        if isinstance(it, (GenList,)):
            gen = it.gen
        elif isinstance(it, Gen):
            gen = it
        elif isinstance(it, (SRange, SList)):
            gen = self.comprehension_of(it)
        else:
            raise Unsupported(f'foreach over {type(it).__name__}')
        parts = self.rename_parts(gen)
        # membership of a key in the iterated set
        def member(key):
            alts = []
            for p in parts:
                alts.append(self.solve_part(p, self.elem_key(p.elem), key))
            return z3.Or(*alts) if alts else z3.BoolVal(False)
        arity = len(self.elem_key(parts[0].elem)) if parts else 1
        local_names = sorted(self.assigned_names(node))
        scalars = [n for n in local_names if n not in self.assigned_names(node.target) and env.has(n)
                   and n not in spec.modifies]
        pre = self.snapshot_locals(env, list(env.vars.keys()))
        objs, allowed = self.modified_objects(env, spec)
        # init
        empty = Builtin('done', lambda I, a, k: False)
        self.loop_prove(f'{lid}.inv-init', self.call_inv(spec, env, {'done': empty, 'pre': pre}))
        # havoc
        self.loop_birth = _birth[0]
        for n, v in objs:
            self.havoc_value(v, n)
        for n in scalars:
            if not spec.opts.get('keep_scalars'):
                env.vars[n] = self.havoc_scalar(env.lookup(n), n)
        D = z3.Function(self.fresh_name('done'), *([z3.IntSort()] * arity), z3.BoolSort())
        done = Builtin('done', lambda I, a, k: D(*self.elem_key(a[0])))
        ks = [z3.Int(self.fresh_name('dk')) for _ in range(arity)]
        self.assume(z3.ForAll(ks, z3.Implies(D(*ks), member(ks)), patterns=[D(*ks)]))
        self.assume(zbool(self.call_inv(spec, env, {'done': done, 'pre': pre})))
        if self.branch(self.fresh_bool('loop_step')):
            # ---- step: arbitrary element
            picked = None
            for idx, p in enumerate(parts):
                last = idx == len(parts) - 1
                if last or self.branch(self.fresh_bool('loop_part')):
                    picked = p
                    break
            p = picked
            self.assume(zbool(p.guard()))
            key = self.elem_key(p.elem)
            if spec.opts.get('distinct', True):
                self.assume(z3.Not(D(*key)))
            self.assign(node.target, p.elem, env)
            before = self.snapshot_locals(env, list(env.vars.keys()))
            self.run_body_checked(node, env, spec, allowed)
            self.step_checks(spec, env, lid, {'done': done, 'pre': pre, 'before': before})
            done2 = Builtin('done', lambda I, a, k: z3.Or(D(*self.elem_key(a[0])),
                                                          z3.And(*[x == y for x, y in zip(self.elem_key(a[0]), key)])))
            self.loop_prove(f'{lid}.inv-step', self.call_inv(spec, env, {'done': done2, 'pre': pre}))
            raise PathEnd()
        # ---- use
        self.assume(z3.ForAll(ks, z3.Implies(member(ks), D(*ks))))
        for n in self.assigned_names(node.target):
            env.vars.pop(n, None)
        return None

    # ---------------------------------------------------------------- indexed
    def loop_indexed(self, node, it, env, spec, f):
        from .core import _birth
        lid = f'loop:{spec.fn.name}'
        if isinstance(it, GenList):
            fv = self.fview(it)
            n, read = fv['n'], fv['read']
        elif isinstance(it, SList):
            fz = it.frozen_copy()
            n, read = fz.n, (lambda i: self.slist_read(fz, i, raw=True))
        else:
            raise Unsupported(f'indexed loop over {type(it).__name__}')
        local_names = sorted(self.assigned_names(node))
        scalars = [x for x in local_names if x not in self.assigned_names(node.target) and env.has(x)
                   and x not in spec.modifies]
        pre = self.snapshot_locals(env, list(env.vars.keys()))
        objs, allowed = self.modified_objects(env, spec)
        self.loop_prove(f'{lid}.inv-init', self.call_inv(spec, env, {'k': 0, 'pre': pre, 'n': n, 'item': Builtin('item', lambda I, a, kw: read(a[0]))}))
        self.loop_birth = _birth[0]
        for nm, v in objs:
            self.havoc_value(v, nm)
        for nm in scalars:
            env.vars[nm] = self.havoc_scalar(env.lookup(nm), nm)
        k = self.fresh_int('k')
        self.assume(z3.And(k >= 0, k <= zint(n)))
        item = Builtin('item', lambda I, a, kw: read(a[0]))
        self.assume(zbool(self.call_inv(spec, env, {'k': k, 'pre': pre, 'n': n, 'item': item})))
        if self.branch(k < zint(n)):
            self.assign(node.target, read(k), env)
            before = self.snapshot_locals(env, list(env.vars.keys()))
            self.run_body_checked(node, env, spec, allowed)
            self.loop_prove(f'{lid}.inv-step', self.call_inv(spec, env, {'k': k + 1, 'pre': pre, 'n': n, 'item': item}))
            self.step_checks(spec, env, lid, {'k': k, 'pre': pre, 'n': n, 'item': item, 'before': before})
            raise PathEnd()
        for nm in self.assigned_names(node.target):
            env.vars.pop(nm, None)
        return None
