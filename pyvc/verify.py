"""Contract loading and obligation discharge."""
from __future__ import annotations

import ast
import copy
import json
import os
import sys
import time
import traceback
import z3

from .core import (EXC, NOTIMPL, EnumVal, ExcVal, Gen, Instance, Opaque, PathEnd, PyRaise,
                   Rng, RowView, SArr, SClass, SList, SObj, STATS, SymCallable, Unsupported,
                   concretize, is_z3, zbool, zint)
from .inputs import InputFactory
from .interp import Interp, MergeFail
from .model import Builtin, ClassModel, FunctionModel, ModuleModel

QF_RLIMIT = 600_000_000
Q_RLIMIT = 120_000_000


class ContractSpec:
    def __init__(self, fn, target, args, props, kwonly, kind, name, opts):
        self.fn = fn
        self.target = target
        self.args = args
        self.props = props
        self.kwonly = kwonly
        self.kind = kind  # 'contract' | 'lemma'
        self.name = name
        self.opts = opts


class Obligation:
    def __init__(self, oid):
        self.id = oid
        self.paths = 0
        self.status = 'discharged'  # discharged | failed | unknown
        self.time = 0.0
        self.cex = None
        self.detail = ''
        self.backend = 'z3-' + z3.get_version_string()
        self.smt2 = None

    def as_dict(self):
        return {'id': self.id, 'paths': self.paths, 'status': self.status, 'time_s': round(self.time, 4),
                'backend': self.backend, 'detail': self.detail}


class StubToken:
    """opaque result of a stubbed callee (only its identity is known)"""

    def __init__(self, name, k):
        self.name = name
        self.k = k

    def __repr__(self):
        return f'<result {self.k} of {self.name}>'


class RunState:
    def __init__(self):
        self.phase = 'pre'
        self.olds = []
        self.old_i = 0
        self.result = None
        self.exc = None
        self.inputs = {}
        self.stub_calls = {}
        self.stub_assumes = {}
        self.locals = {}
        self.reads = []
        self.effects = []


class Verifier:
    def __init__(self, repo='/repo', verif='/verif'):
        self.repo = repo
        self.verif = verif
        self.I = Interp({'gym_gridverse': os.path.join(repo, 'gym_gridverse'),
                         'contracts': os.path.join(verif, 'contracts')})
        self.I.load_repo()
        self.factory = InputFactory(self.I)
        self.contracts = []
        self.state = None
        self.current = None
        self.results = {}
        self.covers = {}
        self.unsupported = {}
        self.dump_dir = None
        self.native_only = {}
        self.backends = {}
        self.seq = 0
        self.I.prove_hook = self.check_goal

        def probe(goal):
            g = concretize(goal)
            if g is True:
                return 'unsat'
            if g is False:
                return 'sat'
            return self.prove(g)[0]
        self.I.prove_probe = probe
        self.install_dsl()

    # --------------------------------------------------------------------- DSL
    def install_dsl(self):
        I = self.I
        m = ModuleModel('pyvc_rt')
        ns = m.ns

        def b(name):
            def deco(fn):
                ns[name] = Builtin(name, fn)
                return fn
            return deco

        @b('contract')
        def _contract(I_, a, k):
            def deco(I2, a2, k2):
                fn = a2[0]
                self.contracts.append(ContractSpec(fn, k.get('target'), k.get('args', {}), k.get('props', []),
                                                   k.get('kwonly', []), 'contract', fn.name, k))
                return fn
            return Builtin('contract()', deco)

        @b('lemma')
        def _lemma(I_, a, k):
            def deco(I2, a2, k2):
                fn = a2[0]
                self.contracts.append(ContractSpec(fn, None, k.get('args', {}), k.get('props', []), [], 'lemma',
                                                   fn.name, k))
                return fn
            return Builtin('lemma()', deco)

        @b('loop_invariant')
        def _loop_invariant(I_, a, k):
            def deco(I2, a2, k2):
                from .loops import LoopSpec
                fn = a2[0]
                mod, qual = k['target'].split(':')
                I.loop_specs[(mod, qual, k.get('loop', 0))] = LoopSpec(fn, k['target'], k.get('loop', 0),
                                                                     k.get('kind', 'foreach'), k.get('modifies', []), k)
                return fn
            return Builtin('loop_invariant()', deco)

        @b('requires')
        def _requires(I_, a, k):
            ph = self.state.phase
            if ph == 'pre':
                I.assume(zbool(I.truth_term(a[0])))
            elif ph == 'call-pre':
                st = self.state
                st.req_i = getattr(st, 'req_i', 0) + 1
                self.check_goal(f'pre:{st.callee}#{st.site}.{st.req_i}', I.truth_term(a[0]), owner=st.owner)

        @b('ensures')
        def _ensures(I_, a, k):
            ph = self.state.phase
            if ph == 'post':
                name, thunk = a[0], a[1]
                self.check_clause(name, thunk)
            elif ph == 'call-post':
                if k.get('symbolic_only') is None or True:
                    I.assume(zbool(I.truth_term(I.call(a[1], [], {}))))

        @b('ensures_locals')
        def _ensures_locals(I_, a, k):
            # postcondition over the local variables of the target at its return (symbolic only)
            if self.state.phase != 'post' or self.state.exc is not None:
                return
            name, fn = a[0], a[1]
            names = [p.arg for p in fn.node.args.args]
            loc = self.state.locals
            missing = [n for n in names if n not in loc]
            if missing:
                raise Unsupported(f'ensures_locals: no local named {missing}')
            self.check_clause(name, Builtin('locals-clause', lambda I2, a2, k2: I.call(fn, [], {n: loc[n] for n in names})))

        @b('reads_all')
        def _reads_all(I_, a, k):
            # every cell of `grid` whose content was read by the target satisfies the condition
            grid, fn = a[0], a[1]
            root = getattr(grid.fields['objects'], 'root', None)
            P = I.load_module('gym_gridverse.geometry').ns['Position']
            acc = True
            for parent, i, j, guard in self.state.reads[I.reads_from:]:
                if getattr(parent, 'root', None) is not root or root is None:
                    continue
                t = I.truth_term(I.call(fn, [I.instantiate(P, [i, j], {})], {}))
                if guard and t is not True:
                    t = z3.Implies(z3.And(*guard), zbool(t))
                if t is False:
                    return False
                if t is not True:
                    acc = t if acc is True else z3.And(acc, t)
            return acc

        @b('stub_assume')
        def _stub_assume(I_, a, k):
            if self.state.phase == 'pre':
                self.state.stub_assumes.setdefault(a[0], []).append(a[1])

        @b('ensures_native')
        def _ensures_native(I_, a, k):
            # clause evaluated only by the native harness (bounded stand-in, e.g. counting); recorded
            if self.state.phase == 'post':
                self.native_only.setdefault(self.current.name, set()).add(a[0])

        @b('ghost_seq')
        def _ghost_seq(I_, a, k):
            return call_k(a[0], a[1])['seq']

        @b('check')
        def _check(I_, a, k):
            self.check_clause(a[0], a[1])

        @b('old')
        def _old(I_, a, k):
            st = self.state
            if st.phase in ('pre', 'call-pre'):
                v = snapshot(I, a[0])
                st.olds.append(v)
                return v
            v = st.olds[st.old_i]
            st.old_i += 1
            return v

        @b('result')
        def _result(I_, a, k):
            return self.state.result

        @b('raised')
        def _raised(I_, a, k):
            e = self.state.exc
            if not a:
                return e is not None
            return e is not None and e.cls.issub(a[0])

        @b('returned')
        def _returned(I_, a, k):
            return self.state.exc is None

        @b('implies')
        def _implies(I_, a, k):
            c = I.truth_term(a[0])
            if c is False:
                return True
            d = a[1]
            if isinstance(d, FunctionModel):
                if c is True:
                    return I.truth_term(I.call(d, [], {}))
                from .interp import DEAD
                r = I.pure(lambda: I.truth_term(I.call(d, [], {})), c)
                if r is DEAD:
                    return True
                return concretize(z3.Implies(c, zbool(r)))
            d = I.truth_term(d)
            return concretize(z3.Implies(zbool(c), zbool(d)))

        @b('forall_cells')
        def _forall_cells(I_, a, k):
            return self.quant_cells(a[0], a[1], True)

        @b('exists_cells')
        def _exists_cells(I_, a, k):
            hints = k.get('hints')
            if hints:
                # proof hint: candidate witnesses; proving the disjunction proves the existential
                grid, fn = a[0], a[1]
                shape = I.getattr_(grid, 'shape')
                h, w = I.getattr_(shape, 'height'), I.getattr_(shape, 'width')
                alts = []
                for p in hints:
                    y, x = I.getattr_(p, 'y'), I.getattr_(p, 'x')
                    guard = z3.And(zint(y) >= 0, zint(y) < zint(h), zint(x) >= 0, zint(x) < zint(w))
                    from .interp import DEAD
                    body = I.pure(lambda p=p: I.truth_term(I.call(fn, [p], {})), guard)
                    if body is DEAD:
                        continue
                    alts.append(z3.And(guard, zbool(body)))
                return concretize(z3.Or(*alts)) if alts else False
            return self.quant_cells(a[0], a[1], False)

        @b('vec_eq')
        def _vec_eq(I_, a, k):
            x, y = a
            xs, ys = I.iterate(x), I.iterate(y)
            if len(xs) != len(ys):
                return False
            acc = True
            for p, q in zip(xs, ys):
                e = I.truth_term(I.equals(p, q))
                if e is False:
                    return False
                if e is not True:
                    acc = e if acc is True else z3.And(acc, e)
            return acc

        @b('symbolic')
        def _symbolic(I_, a, k):
            return True

        @b('contract_input')
        def _contract_input(I_, a, k):
            si = self.state.inputs.get(a[0])
            return si.value if si is not None else a[1]

        @b('forall_obj')
        def _forall_obj(I_, a, k):
            o = I.objmodel.fresh_obj('qo')
            from .interp import DEAD
            body = I.pure(lambda: I.truth_term(I.call(a[0], [o], {})), None)
            if body is DEAD:
                return True
            return z3.ForAll([o.term], zbool(body))

        @b('forall_int')
        def _forall_int(I_, a, k):
            return self.quant_int(a[0], a[1], a[2], True)

        @b('exists_int')
        def _exists_int(I_, a, k):
            return self.quant_int(a[0], a[1], a[2], False)

        @b('same')
        def _same(I_, a, k):
            return self.same(a[0], a[1])

        @b('possible')
        def _possible(I_, a, k):
            # some outcome of the generator's draws makes the condition true:
            # exists D'. range(D') and (path facts mentioning D)[D'] and cond[D']
            rng, thunk = a[0], a[1]
            syms = []
            for d in rng.draws:
                if d[0] in ('choice', 'choices', 'integers', 'random'):
                    syms.extend(d[1])
                else:
                    raise Unsupported('possible() over array draws')
            cond = zbool(I.truth_term(I.call(thunk, [], {})))
            if not syms:
                return cond
            from .lib import _consts
            symids = {s_.get_id() for s_ in syms}
            facts = [f for f in I.pc if any(c.get_id() in symids for c in _consts(f))]
            fresh = [z3.Const(I.fresh_name('outcome'), s_.sort()) for s_ in syms]
            pairs = list(zip(syms, fresh))
            body = z3.And(*[z3.substitute(f, *pairs) for f in facts], z3.substitute(cond, *pairs))
            return z3.Exists(fresh, body)

        @b('effects')
        def _effects(I_, a, k):
            # number of recorded effects of a kind during the target's execution:
            # 'set_order' (iteration order of a set reaches the result), 'global_write', 'hash_str', 'identity'
            return sum(1 for kind, what in self.state.effects if kind == a[0])

        @b('draw_value')
        def _draw_value(I_, a, k):
            # outcome of the k-th scalar draw of the generator (ghost: lets a contract name a random choice)
            d = a[0].draws[a[1]]
            if d[0] not in ('choice', 'integers', 'random'):
                raise Unsupported('draw_value of a vector draw')
            return d[1][0]

        @b('draws')
        def _draws(I_, a, k):
            return len(a[0].draws)

        def calls_of(x):
            if isinstance(x, str):
                return self.state.stub_calls.setdefault(x, [])
            return x.calls

        @b('ghost_calls')
        def _ghost_calls(I_, a, k):
            return len(calls_of(a[0]))

        def call_k(x, k_):
            cs = calls_of(x)
            if not (isinstance(k_, int) and 0 <= k_ < len(cs)):
                from .core import py_raise
                py_raise('IndexError', 'no such ghost call')
            return cs[k_]

        @b('ghost_result')
        def _ghost_result(I_, a, k):
            return call_k(a[0], a[1])['result']

        @b('ghost_kwarg')
        def _ghost_kwarg(I_, a, k):
            return call_k(a[0], a[1])['kwargs'][a[2]]

        @b('ghost_arg')
        def _ghost_arg(I_, a, k):
            return call_k(a[0], a[1])['args'][a[2]]

        @b('is_none_obj')
        def _isnone(I_, a, k):
            return I.isinstance_(a[0], I.load_module('gym_gridverse.grid_object').ns['NoneGridObject'])

        I.stub_modules['pyvc_rt'] = m

    def quant_cells(self, grid, fn, is_all):
        I = self.I
        P = I.load_module('gym_gridverse.geometry').ns['Position']
        shape = I.getattr_(grid, 'shape')
        h, w = I.getattr_(shape, 'height'), I.getattr_(shape, 'width')
        y, x = I.fresh_int('qy'), I.fresh_int('qx')
        p = I.instantiate(P, [y, x], {})
        guard = z3.And(y >= 0, y < zint(h), x >= 0, x < zint(w))
        from .interp import DEAD
        body = I.pure(lambda: I.truth_term(I.call(fn, [p], {})), guard)
        if body is DEAD:
            return is_all
        if is_all:
            return z3.ForAll([y, x], z3.Implies(guard, zbool(body)))
        return z3.Exists([y, x], z3.And(guard, zbool(body)))

    def quant_int(self, lo, hi, fn, is_all):
        I = self.I
        v = I.fresh_int('qi')
        guard = z3.And(v >= zint(lo), v < zint(hi))
        from .interp import DEAD
        body = I.pure(lambda: I.truth_term(I.call(fn, [v], {})), guard)
        if body is DEAD:
            return is_all
        if is_all:
            return z3.ForAll([v], z3.Implies(guard, zbool(body)))
        return z3.Exists([v], z3.And(guard, zbool(body)))

    def same(self, a, b):
        """deep structural equality (stricter than GridObject.__eq__: box contents too)"""
        I = self.I
        if isinstance(a, SObj) and isinstance(b, SObj):
            return concretize(a.term == b.term)
        if isinstance(a, Instance) and isinstance(b, Instance):
            if a.cls is not b.cls:
                return False
            if a.cls.name == 'Grid':
                sa, sb = I.getattr_(a, 'shape'), I.getattr_(b, 'shape')
                sh = I.truth_term(I.equals(sa, sb))
                if sh is False:
                    return False
                cells = self.quant_cells(a, Builtin('samecell', lambda I_, aa, kk: self.same(
                    I.getitem(a, aa[0]), I.getitem(b, aa[0]))), True)
                return concretize(z3.And(zbool(sh), zbool(cells)))
            acc = True
            keys = set(a.fields) | set(b.fields)
            for kf in sorted(keys):
                if kf not in a.fields or kf not in b.fields:
                    return False
                e = I.truth_term(self.same(a.fields[kf], b.fields[kf]))
                if e is False:
                    return False
                if e is not True:
                    acc = e if acc is True else z3.And(acc, e)
            return acc
        if isinstance(a, (tuple, list)) and isinstance(b, (tuple, list)) and len(a) == len(b):
            acc = True
            for x, y in zip(a, b):
                e = I.truth_term(self.same(x, y))
                if e is False:
                    return False
                if e is not True:
                    acc = e if acc is True else z3.And(acc, e)
            return acc
        if isinstance(a, (SList,)) or isinstance(b, SList):
            raise Unsupported('same() on raw lists')
        return I.equals(a, b)

    # --------------------------------------------------------------- loading
    def load_contracts(self, modname):
        self.I.load_module(modname)

    def resolve_target(self, target):
        mod, qual = target.split(':')
        m = self.I.load_module(mod)
        obj = m
        for part in qual.split('.'):
            if isinstance(obj, ModuleModel):
                obj = obj.ns[part]
            elif isinstance(obj, ClassModel):
                obj, _ = obj.lookup(part)
                from .model import StaticMethod, ClassMethod
                if isinstance(obj, (StaticMethod, ClassMethod)):
                    obj = obj.func
            else:
                obj = self.I.getattr_(obj, part)
        return obj

    # ------------------------------------------------------------- obligations
    def oid(self, clause):
        mod = self.current.fn.module.name.split('.')[-1]
        return f'{mod}.{self.current.name}/{clause}'

    def check_clause(self, name, thunk):
        I = self.I
        ob = self.results.setdefault(self.oid(name), Obligation(self.oid(name)))
        ob.paths += 1
        if ob.status != 'discharged':
            return  # already refuted / undecided on another path
        t0 = time.time()
        try:
            goal = I.truth_term(I.call(thunk, [], {}))
        except PyRaise as e:
            ob.status = 'failed' if ob.status != 'failed' else ob.status
            ob.detail = f'clause raised {e.exc!r} (contract evaluation error)'
            ob.cex = ob.cex or self.extract_cex(None)
            ob.time += time.time() - t0
            return
        goal = concretize(goal)
        if goal is True:
            ob.time += time.time() - t0
            return
        r, model = self.prove(goal)
        ob.time += time.time() - t0
        if r == 'unsat':
            return
        if r == 'sat':
            if ob.status != 'failed':
                ob.status = 'failed'
                ob.cex = self.extract_cex(model, goal)
                ob.detail = 'counterexample'
        else:
            if ob.status == 'discharged':
                ob.status = 'unknown'
                ob.detail = 'solver returned unknown'
                ob.cex = None

    def check_goal(self, name, goal, owner=None):
        """obligation with an already evaluated goal (loop invariants, call preconditions)"""
        ob = self.results.setdefault(self.oid(name), Obligation(self.oid(name)))
        ob.paths += 1
        if ob.status != 'discharged':
            return
        t0 = time.time()
        goal = concretize(goal)
        if goal is True:
            return
        if goal is False:
            goal = z3.BoolVal(False)
        r, model = self.prove(goal)
        ob.time += time.time() - t0
        if r == 'unsat':
            return
        if r == 'sat':
            if ob.status != 'failed':
                ob.status = 'failed'
                ob.cex = self.extract_cex(model, goal)
                ob.detail = 'counterexample'
        elif ob.status == 'discharged':
            ob.status = 'unknown'
            ob.detail = 'solver returned unknown'

    def prove(self, goal):
        """portfolio: budgets are z3 resource limits (deterministic), not wall-clock time, so that
        verdicts do not depend on machine load; wall-clock timeouts are only a distant safety net"""
        I = self.I
        from .ctx import has_quant
        quant = I.nquant > 0 or has_quant(goal)
        neg = z3.Not(zbool(goal))

        def mk(mbqi, seed, rlimit):
            s_ = z3.Solver()
            s_.set('timeout', 600000)
            s_.set('rlimit', rlimit)
            if not mbqi:
                s_.set('smt.mbqi', False)
            if seed:
                s_.set('smt.random_seed', seed)
            for f in I.pc:
                s_.add(f)
            s_.add(neg)
            return s_

        if not quant:
            s = mk(True, 0, QF_RLIMIT)
            r = STATS.timed(lambda: s.check())
            self.note_rlimit(s, 'qf', r)
            if r == z3.unsat:
                self.backends['z3'] = self.backends.get('z3', 0) + 1
                if os.environ.get('PYVC_TIER') == 'thorough':
                    # second back end on the same verification condition
                    v2 = self.cvc5_verdict(I.pc, neg, 20000)
                    self.backends['cvc5-' + v2] = self.backends.get('cvc5-' + v2, 0) + 1
                    if v2 == 'sat':
                        return 'unknown', None   # back ends disagree: never a pass
                return 'unsat', None
            if r == z3.sat:
                return 'sat', self.minimise(s)
            return 'unknown', None
        # quantified: E-matching only first (refutations are found fast), several seeds
        for seed in (0, 1, 2):
            # proofs that succeed need < 10M resource units; the retries with other seeds get a smaller budget
            s0 = mk(False, seed, Q_RLIMIT if seed == 0 else Q_RLIMIT // 3)
            r0 = STATS.timed(lambda: s0.check())
            self.note_rlimit(s0, f'q0s{seed}', r0)
            if r0 == z3.unsat:
                self.backends['z3-ematching'] = self.backends.get('z3-ematching', 0) + 1
                return 'unsat', None
        s = mk(True, 0, Q_RLIMIT // 2)
        r = STATS.timed(lambda: s.check())
        self.note_rlimit(s, 'q1', r)
        if r == z3.unsat:
            return 'unsat', None
        if r == z3.sat:
            return 'sat', self.minimise(s)
        # second back end
        if self.cvc5_refutes(I.pc, neg):
            self.backends['cvc5'] = self.backends.get('cvc5', 0) + 1
            return 'unsat', None
        # unknown (quantifiers): look for a small counterexample by finite grounding
        st = self.state
        sizes, coords = [], []
        for si in st.inputs.values():
            sizes += si.sizes
            coords += si.coords
        if sizes:
            from .ground import ground
            for B in (1, 2):
                try:
                    g = z3.Solver()
                    g.set('timeout', 30000)
                    cache = {}
                    for f in list(I.pc) + [neg]:
                        g.add(ground(f, -1, B + 1, cache))
                    for t in sizes:
                        g.add(t == B)
                    for t in coords:
                        g.add(t >= -1, t <= B)
                    rg = STATS.timed(lambda: g.check())
                    if os.environ.get('PYVC_DEBUG_GROUND'):
                        print('GROUND', B, rg, g.reason_unknown() if rg == z3.unknown else '', file=sys.stderr)
                    if rg == z3.sat:
                        return 'sat', g.model()
                except (MemoryError, z3.Z3Exception) as ex:
                    if os.environ.get('PYVC_DEBUG_GROUND'):
                        print('GROUND', B, 'exception', repr(ex)[:300], file=sys.stderr)
                    break
        return 'unknown', None

    def cvc5_refutes(self, pc, neg):
        return self.cvc5_verdict(pc, neg, 30000) == 'unsat'

    def cvc5_verdict(self, pc, neg, tlimit_ms):
        import subprocess, tempfile
        s = z3.Solver()
        for f in pc:
            s.add(f)
        s.add(neg)
        try:
            txt = '(set-logic ALL)\n' + s.to_smt2()
            with tempfile.NamedTemporaryFile('w', suffix='.smt2', delete=False) as f:
                f.write(txt)
                path = f.name
            try:
                p = subprocess.run(['cvc5', '--lang', 'smt2', f'--tlimit={tlimit_ms}', path], capture_output=True,
                                   text=True, timeout=tlimit_ms / 1000 + 30)
                out = p.stdout.strip().splitlines()[:1]
                return out[0] if out and out[0] in ('unsat', 'sat') else 'unknown'
            finally:
                os.remove(path)
        except Exception:
            return 'unknown'

    def note_rlimit(self, s, kind, r):
        try:
            st = s.statistics()
            rl = st.get_key_value('rlimit count') if 'rlimit count' in st.keys() else 0
        except Exception:
            rl = 0
        import os
        if os.environ.get('PYVC_RLIMIT_LOG'):
            with open(os.environ['PYVC_RLIMIT_LOG'], 'a') as f:
                last = getattr(self, '_last_rl', 0)
                f.write(f'{kind} {r} {rl - last if rl >= last else rl} {self.current.name}\n')
                self._last_rl = rl

    def minimise(self, s):
        """look for a small model: bound sizes and coordinates"""
        st = self.state
        sizes, coords = [], []
        for si in st.inputs.values():
            sizes += si.sizes
            coords += si.coords
        best = s.model()
        if not sizes and not coords:
            return best
        s.set('timeout', 3000)
        for B in (1, 2, 3, 5):
            s.push()
            for t in sizes:
                s.add(t <= B)
            for t in coords:
                s.add(t >= -B - 1, t <= B + 1)
            r = s.check()
            if r == z3.sat:
                best = s.model()
                s.pop()
                break
            s.pop()
        return best

    def extract_cex(self, model, goal=None):
        st = self.state
        out = {'inputs': {}, 'phase_exc': repr(st.exc) if st.exc else None}
        if model is None:
            return out
        for name, si in st.inputs.items():
            try:
                out['inputs'][name] = si.extract(model)
            except Exception as e:  # extraction problems are engine limits, not verdicts
                out['inputs'][name] = {'unextractable': str(e)}
        return out

    def make_stub(self, st, sname, ret=None):
        I = self.I
        def hook(I_, f, args, kwargs):
            calls = st.stub_calls.setdefault(sname, [])
            if ret is None:
                tok = StubToken(sname, len(calls))
            else:
                si = self.factory.make(ret, f'{sname.split(":")[-1].split(".")[-1]}_r{len(calls)}')
                st.inputs[f'stub:{sname}:{len(calls)}'] = si
                tok = si.value
            self.factory.seq += 1
            calls.append({'args': list(args), 'kwargs': dict(kwargs), 'result': tok, 'seq': self.factory.seq})
            if getattr(f, 'lru_cache', False):
                I.mark_cached(tok, f.qualname)
            for fn in st.stub_assumes.get(sname, []):
                I.assume(zbool(I.truth_term(I.call(fn, [tok] + list(args), dict(kwargs)))))
            return tok
        return hook

    def modular_call(self, mspec, f, args, kwargs):
        """call site of a function with a modular contract: check its requires, havoc what it
        modifies, assume its ensures (the callee's body is not looked at)"""
        I = self.I
        node = f.node
        params = [p.arg for p in node.args.posonlyargs + node.args.args]
        byname = {}
        for i, p in enumerate(params):
            if i < len(args):
                byname[p] = args[i]
            elif p in kwargs:
                byname[p] = kwargs[p]
            else:
                di = i - (len(params) - len(f.defaults))
                byname[p] = f.defaults[di]
        for i, p in enumerate(node.args.kwonlyargs):
            byname[p.arg] = kwargs[p.arg] if p.arg in kwargs else f.kw_defaults[i]
        outer = self.state
        st = RunState()
        st.inputs = outer.inputs
        st.callee = mspec.name
        outer.site_counter = getattr(outer, 'site_counter', 0) + 1
        st.site = outer.site_counter
        st.owner = outer
        self.state = st
        saved_log, I.read_log = I.read_log, None
        try:
            st.phase = 'call-pre'
            I.call(mspec.fn, [], {k_: v for k_, v in byname.items() if k_ in mspec.args})
            for name in mspec.opts.get('modifies', []):
                I.havoc_value(byname[name], name)
            ret = mspec.opts.get('returns')
            st.result = self.factory.make(ret, f'{mspec.name}_ret').value if ret else None
            st.phase = 'call-post'
            st.old_i = 0
            I.call(mspec.fn, [], {k_: v for k_, v in byname.items() if k_ in mspec.args})
            return st.result
        finally:
            self.state = outer
            I.read_log = saved_log

    # ------------------------------------------------------------------ running
    def verify(self, spec):
        I = self.I
        self.current = spec
        t0 = time.time()
        covers = [0]
        target = self.resolve_target(spec.target) if spec.target else None
        from .model import PropertyModel
        if isinstance(target, PropertyModel):
            target = target.fget

        def thunk():
            st = RunState()
            self.state = st
            self.factory.seq = 0
            I.restore_globals()
            args = []
            kwargs = {}
            byname = {}
            ghost = spec.opts.get('ghost', [])
            for pname, sort in spec.args.items():
                try:
                    si = self.factory.make(sort, pname)
                except PyRaise as pr:
                    # a constructor of an input rejecting its arguments (ValueError and the like) means "not an
                    # input"; anything else (AttributeError on an opaque token, IndexError ...) means the input
                    # shape of the contract no longer fits the code, and says so instead of losing the case silently
                    ename = getattr(getattr(pr.exc, 'cls', None), 'name', '')
                    if ename in ('ValueError', 'TypeError', 'AssertionError', 'RuntimeError', 'NotImplementedError'):
                        raise PathEnd()
                    raise Unsupported(f'building the input {pname!r} raised {pr.exc!r}')
                st.inputs[pname] = si
                byname[pname] = si.value
                if pname in ghost:
                    continue
                if pname in spec.kwonly:
                    kwargs[pname] = si.value
                else:
                    args.append(si.value)
            if spec.opts.get('call') is not None:
                args = list(I.call(spec.opts['call'], [], byname))
                kwargs = {}
            if spec.kind == 'lemma':
                st.phase = 'post'
                # a lemma may stub callees too (sequences of calls on an object whose collaborators are opaque)
                lhooks = {}
                lstubs = spec.opts.get('stubs', {})
                if isinstance(lstubs, (list, tuple)):
                    lstubs = {s_: None for s_ in lstubs}
                for sname, ret in lstubs.items():
                    tfn = self.resolve_target(sname)
                    if isinstance(tfn, PropertyModel):
                        tfn = tfn.fget
                    lhooks[tfn] = self.make_stub(st, sname, ret)
                I.contract_hooks = lhooks
                try:
                    I.call(spec.fn, [], byname)
                finally:
                    I.contract_hooks = {}
                covers[0] += 1
                return None
            st.phase = 'pre'
            I.call(spec.fn, [], byname)
            st.phase = 'body'
            hooks = {}
            stubs = spec.opts.get('stubs', [])
            if isinstance(stubs, (list, tuple)):
                stubs = {s_: None for s_ in stubs}
            for sname, ret in stubs.items():
                if isinstance(ret, (list, tuple)) and ret and ret[0] == 'native-real':
                    ret = ret[1]
                tfn = self.resolve_target(sname)
                if isinstance(tfn, PropertyModel):
                    tfn = tfn.fget
                hooks[tfn] = self.make_stub(st, sname, ret)
            for ms in self.contracts:
                if ms.opts.get('modular') and ms.target:
                    try:
                        fm = self.resolve_target(ms.target)
                    except Exception:
                        continue    # the helper under that modular contract is gone (renamed): only its callers are affected
                    if fm not in hooks:
                        hooks[fm] = (lambda I_, f_, a_, k_, ms=ms: self.modular_call(ms, f_, a_, k_))
            I.contract_hooks = hooks
            I.read_log = st.reads
            I.effects = st.effects
            I.read_base = len(I.pc)
            I.reads_from = 0
            try:
                if isinstance(target, FunctionModel):
                    st.result = I.call_function(target, args, kwargs, skip_hook=True, capture=st.locals)
                else:
                    st.result = I.call(target, args, kwargs)
            except PyRaise as e:
                st.exc = e.exc
            finally:
                I.contract_hooks = {}
                I.read_log = None
                I.effects = None
            st.phase = 'post'
            st.old_i = 0
            if I.check_sat() != z3.unsat:
                covers[0] += 1
            I.call(spec.fn, [], byname)
            if 'C02' in spec.props or 'C03' in spec.props:
                # implicit clause of every C02/C03 contract: no global state is written, no generator is
                # created, nothing depends on set iteration order / object identity / string hashes
                input_rngs = {id(si_.value) for si_ in st.inputs.values() if isinstance(si_.value, Rng)}
                input_rngs |= {id(v_) for si_ in st.inputs.values() if isinstance(si_.value, Instance)
                               for v_ in si_.value.fields.values() if isinstance(v_, Rng)}
                lazy_lib_rng = ('global_write: gym_gridverse.rng._gv_rng', 'new_rng')
                all_effects = list(st.effects) + [e_ for e_ in I.sticky_effects if e_ not in st.effects]
                bad = [f'{k_}: {w_}' for k_, w_ in all_effects if k_ in ('global_write', 'new_rng', 'identity', 'cache_write')
                       or (k_ == 'set_order' and not spec.opts.get('allow_set_order'))]
                # creating the (still unused) library generator lazily is not a draw; drawing from it is
                bad = [b_ for b_ in bad if not b_.startswith(lazy_lib_rng)]
                bad += [f'draw on a generator that was not passed in: {w_.name}' for k_, w_ in st.effects
                        if k_ == 'draw' and id(w_) not in input_rngs]
                allowed = spec.opts.get('allow_effects', [])
                bad = [b_ for b_ in bad if not any(b_.startswith(a_) for a_ in allowed)]
                self.check_goal('implicit:no-global-state-no-hidden-randomness', not bad)
                if bad:
                    self.results[self.oid('implicit:no-global-state-no-hidden-randomness')].detail = '; '.join(bad)[:300]
            return None

        before = set(self.results)
        I.sticky_effects = []
        try:
            leaves = I.explore(thunk)
            for conds, facts, kind, payload in leaves:
                if kind == 'raise':
                    raise Unsupported(f'contract function raised {payload!r}')
        except (Unsupported, MergeFail, RecursionError) as e:
            if os.environ.get("PYVC_DEBUG"): traceback.print_exc()
            self.unsupported[spec.name] = f'{type(e).__name__}: {e}'
            for k in set(self.results) - before:
                del self.results[k]
            return
        finally:
            self.state = None
        self.covers[spec.name] = {'paths': len(leaves), 'feasible_post': covers[0], 'time_s': round(time.time() - t0, 3)}
        if covers[0] == 0:
            self.unsupported[spec.name] = 'vacuous: no feasible path reaches the postcondition'


def snapshot(I, v, memo=None):
    """deep copy of a symbolic value graph (terms shared, containers copied)"""
    if memo is None:
        memo = {}
    if id(v) in memo:
        return memo[id(v)]
    if isinstance(v, Instance):
        r = Instance(v.cls, {})
        r.frozen = v.frozen
        memo[id(v)] = r
        for k, x in v.fields.items():
            r.fields[k] = snapshot(I, x, memo)
        return r
    if isinstance(v, SList):
        r = v.frozen_copy()
        memo[id(v)] = r
        return r
    if isinstance(v, SObj):
        return SObj(v.term)
    if isinstance(v, list):
        r = [snapshot(I, x, memo) for x in v]
        memo[id(v)] = r
        return r
    if isinstance(v, tuple):
        return tuple(snapshot(I, x, memo) for x in v)
    if isinstance(v, dict):
        return {k: snapshot(I, x, memo) for k, x in v.items()}
    if isinstance(v, SArr):
        r = SArr(v.h, v.w, v.elem, v.kind)
        r.writes = list(v.writes)
        return r
    return v
