"""Native (CPython) runtime for the contract DSL.

The same contract files that pyvc interprets symbolically are imported here under
/venv/bin/python together with the real gym_gridverse; a contract is run in two
phases around a call of the real function (pre: requires/old; post: ensures)."""
import copy

REGISTRY = []


class _State:
    def __init__(self):
        self.phase = 'idle'
        self.olds = []
        self.old_i = 0
        self.result = None
        self.exc = None
        self.pre_ok = True
        self.clauses = []  # (name, ok, error)
        self.stub_calls = {}
        self.only = None


ST = _State()


class ContractSpec:
    def __init__(self, fn, kind, opts):
        self.fn = fn
        self.kind = kind
        self.name = fn.__name__
        self.target = opts.get('target')
        self.args = opts.get('args', {})
        self.kwonly = opts.get('kwonly', [])
        self.props = opts.get('props', [])
        self.opts = opts


def contract(**opts):
    def deco(fn):
        REGISTRY.append(ContractSpec(fn, 'contract', opts))
        return fn
    return deco


def lemma(**opts):
    def deco(fn):
        REGISTRY.append(ContractSpec(fn, 'lemma', opts))
        return fn
    return deco


def loop_invariant(**opts):
    """loop invariants are proof artefacts of the symbolic verifier; natively they are inert"""
    def deco(fn):
        return fn
    return deco


def requires(cond):
    if ST.phase == 'pre' and not cond:
        ST.pre_ok = False


class HarnessLimit(Exception):
    """the native harness cannot evaluate a clause on this input (e.g. too many generator outcomes to
    enumerate): the clause is skipped on the input, never reported as failed"""


def _run_clause(name, thunk):
    if ST.only is not None and name != ST.only:
        return
    try:
        ok = bool(thunk())
        ST.clauses.append((name, ok, None))
    except HarnessLimit:
        return
    except Exception as e:  # a clause that raises is a failed clause
        ST.clauses.append((name, False, f'{type(e).__name__}: {e}'))


def ensures(name, thunk):
    if ST.phase == 'post':
        _run_clause(name, thunk)


def ensures_native(name, thunk):
    """clause outside the symbolic verifier's reach (e.g. counting): checked natively only"""
    if ST.phase == 'post':
        _run_clause(name, thunk)


_SEQ = [0]


def next_seq():
    _SEQ[0] += 1
    return _SEQ[0]


def ghost_seq(fn, k):
    return _calls(fn)[k]['seq']


def check(name, thunk):
    _run_clause(name, thunk)


def old(value):
    if ST.phase == 'pre':
        v = copy.deepcopy(value)
        ST.olds.append(v)
        return v
    v = ST.olds[ST.old_i]
    ST.old_i += 1
    return v


def result():
    return ST.result


def raised(*classes):
    if ST.exc is None:
        return False
    if not classes:
        return True
    return isinstance(ST.exc, classes)


def returned():
    return ST.exc is None


def implies(a, b):
    if not a:
        return True
    return bool(b()) if callable(b) else bool(b)


def forall_cells(grid, fn):
    return all(fn(p) for p in grid.area.positions())


def exists_cells(grid, fn, hints=None):
    # `hints` are witness candidates for the symbolic prover only
    return any(fn(p) for p in grid.area.positions())


def forall_int(lo, hi, fn):
    return all(fn(i) for i in range(lo, hi))


def exists_int(lo, hi, fn):
    return any(fn(i) for i in range(lo, hi))


def draws(rng):
    return rng.ncalls


def is_none_obj(o):
    from gym_gridverse.grid_object import NoneGridObject
    return isinstance(o, NoneGridObject)


def same(a, b):
    """deep structural equality (box contents included)"""
    from gym_gridverse.agent import Agent
    from gym_gridverse.grid import Grid
    from gym_gridverse.grid_object import GridObject
    if isinstance(a, GridObject) and isinstance(b, GridObject):
        if type(a) is not type(b):
            return False
        if a.state_index != b.state_index or a.color != b.color:
            return False
        ca, cb = getattr(a, 'content', None), getattr(b, 'content', None)
        if (ca is None) != (cb is None):
            return False
        return True if ca is None else same(ca, cb)
    if isinstance(a, GridObject) or isinstance(b, GridObject):
        return False
    if isinstance(a, Grid) and isinstance(b, Grid):
        return a.shape == b.shape and all(same(a[p], b[p]) for p in a.area.positions())
    if isinstance(a, Agent) and isinstance(b, Agent):
        return a.transform == b.transform and same(a.grid_object, b.grid_object)
    if hasattr(a, 'grid') and hasattr(a, 'agent') and hasattr(b, 'grid'):
        return same(a.grid, b.grid) and same(a.agent, b.agent)
    if isinstance(a, (list, tuple)) and isinstance(b, (list, tuple)):
        return len(a) == len(b) and all(same(x, y) for x, y in zip(a, b))
    return a == b


def _calls(fn):
    if isinstance(fn, str):
        return ST.stub_calls.get(fn, [])
    return fn.calls


def ghost_calls(fn):
    return len(_calls(fn))


def ghost_result(fn, k):
    return _calls(fn)[k]['result']


def ghost_kwarg(fn, k, name):
    return _calls(fn)[k]['kwargs'][name]


def ghost_arg(fn, k, i):
    return _calls(fn)[k]['args'][i]


def possible(rng, thunk):
    """some outcome of the generator's draws makes the condition true (native: re-run the real
    function on fresh copies of the pre-state inputs for every outcome vector, bounded)"""
    return ST.possible_hook(rng, thunk)


def sample_objects():
    from gym_gridverse import grid_object as go
    flat = [go.NoneGridObject(), go.Hidden(), go.Floor(), go.Wall(), go.MovingObstacle()]
    for c in go.Color:
        flat += [go.Exit(c), go.Key(c), go.Telepod(c), go.Beacon(c)]
        flat += [go.Door(s, c) for s in go.Door.Status]
    boxes = [go.Box(o) for o in flat if not isinstance(o, (go.NoneGridObject, go.Hidden))]
    return flat + boxes + [go.Box(b) for b in boxes[:8]]


def forall_obj(fn):
    """natively: over a finite sample of objects (all flat objects, boxes of them, some nested boxes)"""
    return all(fn(o) for o in sample_objects())


def contract_input(name, default):
    return default


def ensures_locals(name, fn, native=None):
    """postcondition over the target's local variables: symbolic only; `native` may give an
    equivalent clause the native harness can evaluate"""
    if ST.phase == 'post' and native is not None:
        _run_clause(name, native)


def reads_all(grid, fn):
    """(symbolic only) every cell read by the target satisfies fn; natively not observable"""
    return True


def stub_assume(name, fn):
    pass


def symbolic():
    """True only under the symbolic verifier (for clauses about ghost traces the native run cannot observe)"""
    return False


def draw_value(rng, k):
    return rng.values[k]


def effects(kind):
    """natively only the hash-order effect is observable: the target is re-run in fresh interpreters
    with different PYTHONHASHSEED values and the results compared"""
    if kind == 'set_order':
        return ST.hashseed_hook()
    return 0


def vec_eq(a, b):
    import numpy as np
    return bool(np.array_equal(np.asarray(a), np.asarray(b)))
